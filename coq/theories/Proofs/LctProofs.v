(* Proofs about the LCT header model (Model/Lct.v) against the RFC 5651 figure (Spec/C06Spec.v). *)
From FluteV Require Import Model.Bytes Model.Lct Spec.C06Spec Proofs.BytesProofs.
Open Scope N_scope.
Arguments N.add : simpl never. Arguments N.mul : simpl never. Arguments N.sub : simpl never.
Arguments N.div : simpl never. Arguments N.modulo : simpl never. Arguments N.pow : simpl never.
Arguments N.shiftl : simpl never. Arguments N.shiftr : simpl never. Arguments N.land : simpl never.
Arguments N.lor : simpl never.

(* ---------------------------------------------------------------------------------- *)
(* nb_bytes_128 / nb_bytes_64                                                          *)
Lemma mask_test x k : negb (N.land x (mask16 k) =? 0) = negb ((x / 2 ^ k) mod 2 ^ 16 =? 0).
Proof.
  unfold mask16. f_equal.
  destruct (N.eqb_spec (N.land x (N.shiftl (N.ones 16) k)) 0) as [E|E];
  destruct (N.eqb_spec ((x / 2 ^ k) mod 2 ^ 16) 0) as [F|F]; try reflexivity.
  - apply land_mask_zero in E. contradiction.
  - apply land_mask_zero in F. contradiction.
Qed.

(* the outcome of the cascade: either no 16-bit group is set (x = 0) or the top-most set
   group ends at byte n *)
Definition nb_spec (x min n : N) (sizes : list N) : Prop :=
  (x = 0 /\ n = min) \/ (In n sizes /\ 2 ^ (8 * n - 16) <= x /\ x < 2 ^ (8 * n)).

Ltac nb_step k :=
  match goal with
  | Hx : ?x < 2 ^ _ |- context [negb ((?x / 2 ^ k) mod 2 ^ 16 =? 0)] =>
    destruct (N.eqb_spec ((x / 2 ^ k) mod 2 ^ 16) 0) as [Ez|Ez]; cbn [negb];
    [ apply (high_group_zero x k 16) in Ez; [clear Hx; rename Ez into Hx | exact Hx]
    | right; split; [cbn [In]; tauto | split; [exact (high_group_nonzero x k 16 Ez) | exact Hx]] ]
  end.

Lemma nb_bytes_128_spec x min : x < 2 ^ 128 ->
  nb_spec x min (nb_bytes_128 x min) [2; 4; 6; 8; 10; 12; 14; 16].
Proof.
  intros Hx. unfold nb_bytes_128. rewrite !mask_test.
  change (2 ^ 128) with (2 ^ (112 + 16)) in Hx.
  nb_step 112. change (2 ^ 112) with (2 ^ (96 + 16)) in Hx.
  nb_step 96. change (2 ^ 96) with (2 ^ (80 + 16)) in Hx.
  nb_step 80. change (2 ^ 80) with (2 ^ (64 + 16)) in Hx.
  nb_step 64. change (2 ^ 64) with (2 ^ (48 + 16)) in Hx.
  nb_step 48. change (2 ^ 48) with (2 ^ (32 + 16)) in Hx.
  nb_step 32. change (2 ^ 32) with (2 ^ (16 + 16)) in Hx.
  nb_step 16. change (2 ^ 16) with (2 ^ (0 + 16)) in Hx.
  nb_step 0.
  left. split; [|reflexivity]. change (2 ^ 0) with 1 in Hx. lia.
Qed.

Lemma nb_bytes_64_spec x min : x < 2 ^ 64 ->
  nb_spec x min (nb_bytes_64 x min) [2; 4; 6; 8].
Proof.
  intros Hx. unfold nb_bytes_64. rewrite !mask_test.
  change (2 ^ 64) with (2 ^ (48 + 16)) in Hx.
  nb_step 48. change (2 ^ 48) with (2 ^ (32 + 16)) in Hx.
  nb_step 32. change (2 ^ 32) with (2 ^ (16 + 16)) in Hx.
  nb_step 16. change (2 ^ 16) with (2 ^ (0 + 16)) in Hx.
  nb_step 0.
  left. split; [|reflexivity]. change (2 ^ 0) with 1 in Hx. lia.
Qed.

(* ---------------------------------------------------------------------------------- *)
(* the width flags flute selects hold the values                                       *)
Ltac pow_le := apply N.pow_le_mono_r; [lia | vm_compute; discriminate].
Ltac bound_from H :=
  first [ eapply N.lt_le_trans; [exact H | pow_le] ].

Lemma lct_flags_spec cci tsi toi c s o h :
  cci < 2 ^ 128 -> tsi < 2 ^ 48 -> toi < 2 ^ 112 ->
  lct_flags cci tsi toi = (c, s, o, h) ->
  c < 4 /\ s < 2 /\ o < 4 /\ h < 2
  /\ cci < 2 ^ cci_bits c /\ tsi < 2 ^ tsi_bits s h /\ toi < 2 ^ toi_bits o h.
Proof.
  intros Hc Ht Ho. unfold lct_flags.
  pose proof (nb_bytes_128_spec cci 0 Hc) as Sc.
  assert (Ht' : tsi < 2 ^ 64) by (eapply N.lt_le_trans; [exact Ht | pow_le]).
  pose proof (nb_bytes_64_spec tsi 2 Ht') as St.
  assert (Ho' : toi < 2 ^ 128) by (eapply N.lt_le_trans; [exact Ho | pow_le]).
  pose proof (nb_bytes_128_spec toi 2 Ho') as So.
  set (nc := nb_bytes_128 cci 0) in *. set (nt := nb_bytes_64 tsi 2) in *.
  set (no := nb_bytes_128 toi 2) in *. clearbody nc nt no.
  intros E.
  (* CCI *)
  assert (Pc : c < 4 /\ cci < 2 ^ cci_bits c).
  { assert (Ec : c = (if nc <=? 4 then 0 else if nc <=? 8 then 1 else if nc <=? 12 then 2 else 3))
      by (inversion E; reflexivity).
    clear E St So. destruct Sc as [[Z N0]|[I [_ B]]].
    - subst. cbn. split; [lia|]. apply pow2_pos.
    - cbn [In] in I.
      repeat (destruct I as [I|I]; [subst nc; vm_compute in Ec; subst c; split; [lia| bound_from B] |]).
      contradiction. }
  (* TSI, TOI and the shared half-word flag *)
  assert (Pt : s < 2 /\ o < 4 /\ h < 2 /\ tsi < 2 ^ tsi_bits s h /\ toi < 2 ^ toi_bits o h).
  { assert (Es : s = N.land (N.shiftr nt 2) 1) by (inversion E; reflexivity).
    assert (Eo : o = N.land (N.shiftr no 2) 3) by (inversion E; reflexivity).
    assert (Eh : h = N.lor (N.shiftr (N.land nt 2) 1) (N.shiftr (N.land no 2) 1)) by (inversion E; reflexivity).
    clear E Sc.
    assert (Ct : (nt = 2 /\ tsi < 2 ^ 16) \/ (nt = 4 /\ tsi < 2 ^ 32) \/ (nt = 6 /\ tsi < 2 ^ 48)).
    { destruct St as [[Z N0]|[I [L B]]].
      - left. subst. split; [reflexivity|]. apply pow2_pos.
      - cbn [In] in I. destruct I as [I|[I|[I|[I|[]]]]]; subst nt.
        + left. split; [reflexivity|exact B].
        + right; left. split; [reflexivity|exact B].
        + right; right. split; [reflexivity|exact B].
        + exfalso. change (2 ^ (8 * 8 - 16)) with (2 ^ 48) in L. lia. }
    assert (Co : (no = 2 /\ toi < 2 ^ 16) \/ (no = 4 /\ toi < 2 ^ 32) \/ (no = 6 /\ toi < 2 ^ 48)
                 \/ (no = 8 /\ toi < 2 ^ 64) \/ (no = 10 /\ toi < 2 ^ 80) \/ (no = 12 /\ toi < 2 ^ 96)
                 \/ (no = 14 /\ toi < 2 ^ 112)).
    { destruct So as [[Z N0]|[I [L B]]].
      - left. subst. split; [reflexivity|]. apply pow2_pos.
      - cbn [In] in I. destruct I as [I|[I|[I|[I|[I|[I|[I|[I|[]]]]]]]]]; subst no;
          try (exfalso; change (2 ^ (8 * 16 - 16)) with (2 ^ 112) in L; lia); tauto. }
    clear St So.
    destruct Ct as [[-> Bt]|[[-> Bt]|[-> Bt]]];
    destruct Co as [[-> Bo]|[[-> Bo]|[[-> Bo]|[[-> Bo]|[[-> Bo]|[[-> Bo]|[-> Bo]]]]]]];
    vm_compute in Es, Eo, Eh; subst s o h;
    (split; [lia|]); (split; [lia|]); (split; [lia|]); split;
    first [bound_from Bt | bound_from Bo]. }
  tauto.
Qed.

(* ---------------------------------------------------------------------------------- *)
(* the first word: shift/or = the RFC figure                                            *)
Lemma rfc_word_num x : pack_num (rfc5651_word x) =
  (r_v x mod 16) * 268435456 + ((r_c x mod 4) * 67108864 + ((r_psi x mod 4) * 16777216
  + ((r_s x mod 2) * 8388608 + ((r_o x mod 4) * 2097152 + ((r_h x mod 2) * 1048576
  + ((r_res x mod 4) * 262144 + ((r_a x mod 2) * 131072 + ((r_b x mod 2) * 65536
  + ((r_hdr_len x mod 256) * 256 + ((r_cp x mod 256) * 1 + 0)))))))))).
Proof. reflexivity. Qed.

Lemma lor_word cp hl b a h o s psi c v :
  cp < 256 -> hl < 256 -> b < 2 -> a < 2 -> h < 2 -> o < 4 -> s < 2 -> psi < 4 -> c < 4 -> v < 16 ->
  lor_all [cp; N.shiftl hl 8; N.shiftl b 16; N.shiftl a 17; N.shiftl h 20; N.shiftl o 21;
           N.shiftl s 23; N.shiftl psi 24; N.shiftl c 26; N.shiftl v 28]
  = cp + hl * 256 + b * 65536 + a * 131072 + h * 1048576 + o * 2097152 + s * 8388608
    + psi * 16777216 + c * 67108864 + v * 268435456.
Proof.
  intros. unfold lor_all. cbn [fold_left]. rewrite N.lor_0_l.
  rewrite (lor_add_shiftl cp hl 8) by (change (2 ^ 8) with 256; lia). change (2 ^ 8) with 256.
  rewrite (lor_add_shiftl _ b 16) by (change (2 ^ 16) with 65536; lia). change (2 ^ 16) with 65536.
  rewrite (lor_add_shiftl _ a 17) by (change (2 ^ 17) with 131072; lia). change (2 ^ 17) with 131072.
  rewrite (lor_add_shiftl _ h 20) by (change (2 ^ 20) with 1048576; lia). change (2 ^ 20) with 1048576.
  rewrite (lor_add_shiftl _ o 21) by (change (2 ^ 21) with 2097152; lia). change (2 ^ 21) with 2097152.
  rewrite (lor_add_shiftl _ s 23) by (change (2 ^ 23) with 8388608; lia). change (2 ^ 23) with 8388608.
  rewrite (lor_add_shiftl _ psi 24) by (change (2 ^ 24) with 16777216; lia). change (2 ^ 24) with 16777216.
  rewrite (lor_add_shiftl _ c 26) by (change (2 ^ 26) with 67108864; lia). change (2 ^ 26) with 67108864.
  rewrite (lor_add_shiftl _ v 28) by (change (2 ^ 28) with 268435456; lia). change (2 ^ 28) with 268435456.
  reflexivity.
Qed.



(* the RFC header for the values and flags flute writes *)
Definition flute_rfc_lct (psi cci tsi toi cp : N) (co cs : bool) (c s o h : N) : rfc_lct :=
  {| r_v := 1; r_c := c; r_psi := psi; r_s := s; r_o := o; r_h := h; r_res := 0;
     r_a := b2n cs; r_b := b2n co; r_hdr_len := 2 + o + s + h + c; r_cp := cp;
     r_cci := cci; r_tsi := tsi; r_toi := toi |}.

Lemma lct_word_is_rfc psi cp co cs c s o h cci tsi toi :
  psi < 4 -> cp < 256 -> c < 4 -> s < 2 -> o < 4 -> h < 2 ->
  lct_word psi cp co cs c s o h = pack_num (rfc5651_word (flute_rfc_lct psi cci tsi toi cp co cs c s o h)).
Proof.
  intros. unfold lct_word. rewrite rfc_word_num. cbn [flute_rfc_lct r_v r_c r_psi r_s r_o r_h r_res r_a r_b r_hdr_len r_cp].
  assert (Hl : 2 + o + s + h + c < 256) by lia.
  assert (Ha : b2n cs < 2) by (destruct cs; cbn; lia).
  assert (Hb : b2n co < 2) by (destruct co; cbn; lia).
  rewrite (N.mod_small (2 + o + s + h + c) 256) by assumption.
  fold (b2n co). fold (b2n cs).
  rewrite lor_word by (assumption || lia).
  rewrite !N.mod_small by (assumption || lia). lia.
Qed.

(* ---------------------------------------------------------------------------------- *)
(* packing helpers for whole-byte fields with widths given in N                         *)
Lemma pack_cons_bytesN v n fs : bits_of fs mod 8 = 0 ->
  pack ((v, 8 * n) :: fs) = be_encode (N.to_nat n) v ++ pack fs.
Proof. intros H. rewrite <- (N2Nat.id n) at 1. apply pack_cons_bytes. assumption. Qed.

Lemma cci_bits_bytes c : cci_bits c = 8 * ((c + 1) * 4).
Proof. unfold cci_bits. lia. Qed.
Lemma tsi_bits_bytes s h : tsi_bits s h = 8 * (s * 4 + h * 2).
Proof. unfold tsi_bits. lia. Qed.
Lemma toi_bits_bytes o h : toi_bits o h = 8 * (o * 4 + h * 2).
Proof. unfold toi_bits. lia. Qed.

Lemma mod8_mul n : (8 * n) mod 8 = 0.
Proof. rewrite N.mul_comm. apply N.mod_mul. lia. Qed.

Lemma pack_ids x :
  pack (rfc5651_ids x) =
    be_encode (N.to_nat ((r_c x + 1) * 4)) (r_cci x)
    ++ be_encode (N.to_nat (r_s x * 4 + r_h x * 2)) (r_tsi x)
    ++ be_encode (N.to_nat (r_o x * 4 + r_h x * 2)) (r_toi x).
Proof.
  unfold rfc5651_ids. rewrite cci_bits_bytes, tsi_bits_bytes, toi_bits_bytes.
  rewrite pack_cons_bytesN.
  2:{ cbn [bits_of]. rewrite N.add_0_r, <- N.mul_add_distr_l. apply mod8_mul. }
  rewrite pack_cons_bytesN.
  2:{ cbn [bits_of]. rewrite N.add_0_r. apply mod8_mul. }
  rewrite pack_cons_bytesN by reflexivity.
  change (pack []) with (@nil N). rewrite app_nil_r. reflexivity.
Qed.

Lemma bits_of_ids x : bits_of (rfc5651_ids x)
  = 8 * ((r_c x + 1) * 4 + (r_s x * 4 + r_h x * 2) + (r_o x * 4 + r_h x * 2)).
Proof.
  unfold rfc5651_ids. cbn [bits_of]. rewrite cci_bits_bytes, tsi_bits_bytes, toi_bits_bytes. lia.
Qed.

Lemma pack_word x : pack (rfc5651_word x) = be_encode 4 (pack_num (rfc5651_word x)).
Proof. reflexivity. Qed.

Lemma rfc5651_encode_split x :
  rfc5651_encode x = be_encode 4 (pack_num (rfc5651_word x)) ++ pack (rfc5651_ids x).
Proof.
  unfold rfc5651_encode, rfc5651_layout. rewrite pack_app; [reflexivity|reflexivity|].
  rewrite bits_of_ids. apply mod8_mul.
Qed.

Lemma fixed_words_eq x : rfc5651_fixed_words x = 2 + r_o x + r_s x + r_h x + r_c x.
Proof.
  unfold rfc5651_fixed_words, rfc5651_layout. rewrite bits_of_app, bits_of_ids.
  change (bits_of (rfc5651_word x)) with 32.
  replace (32 + 8 * ((r_c x + 1) * 4 + (r_s x * 4 + r_h x * 2) + (r_o x * 4 + r_h x * 2)))
    with ((2 + r_o x + r_s x + r_h x + r_c x) * 32) by lia.
  apply N.div_mul. lia.
Qed.

(* ---------------------------------------------------------------------------------- *)
(* (1) what push_lct_header writes is the RFC 5651 figure                               *)
Theorem lct_push_is_rfc5651_proof data psi cci tsi toi cp co cs c s o h :
  cci < 2 ^ 128 -> tsi < 2 ^ 48 -> toi < 2 ^ 112 -> psi < 4 -> cp < 256 ->
  lct_flags cci tsi toi = (c, s, o, h) ->
  let x := flute_rfc_lct psi cci tsi toi cp co cs c s o h in
  push_lct_header data psi cci tsi toi cp co cs = data ++ rfc5651_encode x
  /\ all_fit (rfc5651_layout x) = true
  /\ r_hdr_len x = rfc5651_fixed_words x.
Proof.
  intros Hcci Htsi Htoi Hpsi Hcp E x.
  destruct (lct_flags_spec _ _ _ _ _ _ _ Hcci Htsi Htoi E) as (Hc & Hs & Ho & Hh & Bc & Bt & Bo).
  split; [|split].
  - unfold push_lct_header. rewrite E. f_equal.
    rewrite rfc5651_encode_split, pack_ids. subst x.
    cbn [flute_rfc_lct r_c r_s r_o r_h r_cci r_tsi r_toi].
    rewrite <- (lct_word_is_rfc psi cp co cs c s o h cci tsi toi) by assumption.
    f_equal. f_equal; [|f_equal].
    + apply skipn_be_encode'. lia.
    + apply skipn_be_encode'. lia.
    + apply skipn_be_encode'. lia.
  - subst x. unfold all_fit, rfc5651_layout, rfc5651_word, rfc5651_ids, flute_rfc_lct.
    cbn [r_v r_c r_psi r_s r_o r_h r_res r_a r_b r_hdr_len r_cp r_cci r_tsi r_toi app forallb fits fst snd].
    repeat (apply andb_true_iff; split); try apply N.ltb_lt; try reflexivity;
      try assumption; try (change (2 ^ 2) with 4; lia); try (change (2 ^ 1) with 2; lia);
      try (change (2 ^ 8) with 256; lia).
    + destruct cs; cbn; change (2 ^ 1) with 2; lia.
    + destruct co; cbn; change (2 ^ 1) with 2; lia.
    + cbn [fst snd]. change (2 ^ 8) with 256. lia.
  - rewrite fixed_words_eq. reflexivity.
Qed.

(* ---------------------------------------------------------------------------------- *)
(* byte view of the first word and flag extraction                                      *)
Definition byte0 (x : rfc_lct) : list field := [(r_v x, 4); (r_c x, 2); (r_psi x, 2)].
Definition byte1 (x : rfc_lct) : list field :=
  [(r_s x, 1); (r_o x, 2); (r_h x, 1); (r_res x, 2); (r_a x, 1); (r_b x, 1)].

Lemma pack_one_byte g : bits_of g = 8 -> pack g = [pack_num g].
Proof.
  intros H. unfold pack. rewrite H. change (N.to_nat (8 / 8)) with 1%nat.
  apply be_encode_1. pose proof (pack_num_lt g) as L. rewrite H in L. exact L.
Qed.

Lemma word_bytes x : r_hdr_len x < 256 -> r_cp x < 256 ->
  pack (rfc5651_word x) = [pack_num (byte0 x); pack_num (byte1 x); r_hdr_len x; r_cp x].
Proof.
  intros Hl Hc.
  change (rfc5651_word x) with (byte0 x ++ byte1 x ++ [(r_hdr_len x, 8)] ++ [(r_cp x, 8)]).
  rewrite pack_app by reflexivity. rewrite pack_app by reflexivity. rewrite pack_app by reflexivity.
  rewrite (pack_one_byte (byte0 x)) by reflexivity. rewrite (pack_one_byte (byte1 x)) by reflexivity.
  rewrite !pack_byte by assumption. reflexivity.
Qed.

Lemma flags_byte0 v c psi : v < 16 -> c < 4 -> psi < 4 ->
  let x := pack_num [(v, 4); (c, 2); (psi, 2)] in
  N.land (N.shiftr x 2) 3 = c /\ N.shiftr x 4 = v.
Proof.
  intros Hv Hc Hp.
  assert (Ev : v = 0 \/ v = 1 \/ v = 2 \/ v = 3 \/ v = 4 \/ v = 5 \/ v = 6 \/ v = 7 \/ v = 8 \/ v = 9
               \/ v = 10 \/ v = 11 \/ v = 12 \/ v = 13 \/ v = 14 \/ v = 15) by lia.
  assert (Ec : c = 0 \/ c = 1 \/ c = 2 \/ c = 3) by lia.
  assert (Ep : psi = 0 \/ psi = 1 \/ psi = 2 \/ psi = 3) by lia.
  clear Hv Hc Hp.
  repeat match goal with H : _ \/ _ |- _ => destruct H end; subst; vm_compute; split; reflexivity.
Qed.

Lemma flags_byte1 s o h r a b : s < 2 -> o < 4 -> h < 2 -> r < 4 -> a < 2 -> b < 2 ->
  let x := pack_num [(s, 1); (o, 2); (h, 1); (r, 2); (a, 1); (b, 1)] in
  N.land (N.shiftr x 7) 1 = s /\ N.land (N.shiftr x 5) 3 = o /\ N.land (N.shiftr x 4) 1 = h
  /\ N.land (N.shiftr x 1) 1 = a /\ N.land x 1 = b.
Proof.
  intros Hs Ho Hh Hr Ha Hb.
  assert (Es : s = 0 \/ s = 1) by lia. assert (Eo : o = 0 \/ o = 1 \/ o = 2 \/ o = 3) by lia.
  assert (Eh : h = 0 \/ h = 1) by lia. assert (Er : r = 0 \/ r = 1 \/ r = 2 \/ r = 3) by lia.
  assert (Ea : a = 0 \/ a = 1) by lia. assert (Eb : b = 0 \/ b = 1) by lia.
  clear Hs Ho Hh Hr Ha Hb.
  repeat match goal with H : _ \/ _ |- _ => destruct H end; subst; vm_compute; repeat split; reflexivity.
Qed.

Lemma lenN_app (a b : list N) : lenN (a ++ b) = lenN a + lenN b.
Proof. unfold lenN. rewrite app_length. lia. Qed.

Lemma slices4 (A B C D R : list N) :
  slice (A ++ B ++ C ++ D ++ R) (length A) (length A + length B) = B
  /\ slice (A ++ B ++ C ++ D ++ R) (length A + length B) (length A + length B + length C) = C
  /\ slice (A ++ B ++ C ++ D ++ R) (length A + length B + length C)
           (length A + length B + length C + length D) = D.
Proof.
  split; [|split].
  - apply slice_app_mid.
  - replace (A ++ B ++ C ++ D ++ R) with ((A ++ B) ++ C ++ (D ++ R)) by (rewrite <- !app_assoc; reflexivity).
    rewrite <- app_length. apply slice_app_mid.
  - replace (A ++ B ++ C ++ D ++ R) with ((A ++ B ++ C) ++ D ++ R) by (rewrite <- !app_assoc; reflexivity).
    replace (length A + length B + length C)%nat with (length (A ++ B ++ C)) by (rewrite !app_length; lia).
    apply slice_app_mid.
Qed.

(* parse_lct_header on a byte string of the right shape, all list manipulation done once *)
Lemma parse_lct_generic b0 b1 hl cp B C D rest v c s o h a b :
  N.land (N.shiftr b1 7) 1 = s -> N.land (N.shiftr b1 5) 3 = o -> N.land (N.shiftr b1 4) 1 = h ->
  N.land (N.shiftr b0 2) 3 = c -> N.land (N.shiftr b1 1) 1 = a -> N.land b1 1 = b -> N.shiftr b0 4 = v ->
  (v = 1 \/ v = 2) -> c < 4 -> s < 2 -> o < 4 -> h < 2 ->
  length B = N.to_nat ((c + 1) * 4) -> length C = N.to_nat (s * 4 + h * 2) ->
  length D = N.to_nat (o * 4 + h * 2) ->
  4 + (c + 1) * 4 + (s * 4 + h * 2) + (o * 4 + h * 2) <= hl * 4 ->
  hl * 4 <= lenN ([b0; b1; hl; cp] ++ B ++ C ++ D ++ rest) ->
  parse_lct_header ([b0; b1; hl; cp] ++ B ++ C ++ D ++ rest) =
    Ok {| lh_len := hl * 4; lh_cci := be_decode B; lh_tsi := be_decode C; lh_toi := be_decode D;
          lh_cp := cp; lh_close_object := negb (b =? 0); lh_close_session := negb (a =? 0);
          lh_ext_offset := 4 + (c + 1) * 4 + (s * 4 + h * 2) + (o * 4 + h * 2) |}.
Proof.
  intros Fs Fo Fh Fc Fa Fb Fv Hv Hc Hs Ho Hh LB LC LD Hoff Hlen.
  set (A := [b0; b1; hl; cp]) in *. set (data := A ++ B ++ C ++ D ++ rest) in *.
  assert (N2 : nth_error data 2 = Some hl) by reflexivity.
  assert (N3 : nth_error data 3 = Some cp) by reflexivity.
  assert (N0 : nth_error data 0 = Some b0) by reflexivity.
  assert (N1 : nth_error data 1 = Some b1) by reflexivity.
  unfold parse_lct_header. rewrite N2, N3, N0, N1, Fs, Fo, Fh, Fc, Fa, Fb, Fv.
  destruct (N.ltb_spec (lenN data) (hl * 4)) as [L|_]; [lia|].
  assert (Ever : negb (v =? 1) && negb (v =? 2) = false) by (destruct Hv as [Hv|Hv]; rewrite Hv; reflexivity).
  rewrite Ever.
  assert (LA : length A = 4%nat) by reflexivity.
  assert (Ldata : lenN data = 4 + (c + 1) * 4 + (s * 4 + h * 2) + (o * 4 + h * 2) + lenN rest).
  { unfold data, lenN. rewrite !app_length, LA, LB, LC, LD. lia. }
  destruct (N.ltb_spec (lenN data) (4 + (c + 1) * 4 + (s * 4 + h * 2) + (o * 4 + h * 2))) as [L|_]; [lia|].
  destruct (N.ltb_spec 16 ((c + 1) * 4)) as [L|_]; [lia|].
  destruct (N.ltb_spec 8 (s * 4 + h * 2)) as [L|_]; [lia|].
  destruct (N.ltb_spec 16 (o * 4 + h * 2)) as [L|_]; [lia|].
  cbn [orb].
  destruct (N.ltb_spec (hl * 4) (4 + (c + 1) * 4 + (s * 4 + h * 2) + (o * 4 + h * 2))) as [L|_]; [lia|].
  destruct (slices4 A B C D rest) as (S1 & S2 & S3). fold data in S1, S2, S3.
  replace (N.to_nat (4 + (c + 1) * 4)) with (length A + length B)%nat by lia.
  replace (N.to_nat (4 + (c + 1) * 4 + (s * 4 + h * 2))) with (length A + length B + length C)%nat by lia.
  replace (N.to_nat (4 + (c + 1) * 4 + (s * 4 + h * 2) + (o * 4 + h * 2)))
    with (length A + length B + length C + length D)%nat by lia.
  assert (S1' : slice data 4 (length A + length B) = B) by exact S1.
  rewrite S1', S2, S3, !be_decode_zeros. reflexivity.
Qed.

Lemma all_fit_layout x : all_fit (rfc5651_layout x) = true ->
  r_v x < 16 /\ r_c x < 4 /\ r_psi x < 4 /\ r_s x < 2 /\ r_o x < 4 /\ r_h x < 2 /\ r_res x < 4
  /\ r_a x < 2 /\ r_b x < 2 /\ r_hdr_len x < 256 /\ r_cp x < 256
  /\ r_cci x < 2 ^ cci_bits (r_c x) /\ r_tsi x < 2 ^ tsi_bits (r_s x) (r_h x)
  /\ r_toi x < 2 ^ toi_bits (r_o x) (r_h x).
Proof.
  unfold all_fit, rfc5651_layout, rfc5651_word, rfc5651_ids. cbn [app forallb]. unfold fits. cbn [fst snd].
  rewrite !andb_true_iff, !N.ltb_lt. intros H.
  change (2 ^ 4) with 16 in H. change (2 ^ 2) with 4 in H. change (2 ^ 1) with 2 in H.
  change (2 ^ 8) with 256 in H. tauto.
Qed.

Lemma all_fit_word x : all_fit (rfc5651_layout x) = true -> all_fit (rfc5651_word x) = true.
Proof. unfold all_fit, rfc5651_layout. rewrite forallb_app, andb_true_iff. tauto. Qed.
Lemma all_fit_ids x : all_fit (rfc5651_layout x) = true -> all_fit (rfc5651_ids x) = true.
Proof. unfold all_fit, rfc5651_layout. rewrite forallb_app, andb_true_iff. tauto. Qed.

(* (2) every RFC 5651 header - any width class holding the values, version 1 or 2, any PSI and
   reserved bits, any HDR_LEN covering the fixed part and lying inside the datagram - is parsed
   to the same values *)
Theorem lct_parse_accepts_rfc5651_proof x rest :
  all_fit (rfc5651_layout x) = true -> (r_v x = 1 \/ r_v x = 2) ->
  rfc5651_fixed_words x <= r_hdr_len x ->
  r_hdr_len x * 4 <= lenN (rfc5651_encode x ++ rest) ->
  parse_lct_header (rfc5651_encode x ++ rest) =
    Ok {| lh_len := r_hdr_len x * 4; lh_cci := r_cci x; lh_tsi := r_tsi x; lh_toi := r_toi x;
          lh_cp := r_cp x; lh_close_object := negb (r_b x =? 0);
          lh_close_session := negb (r_a x =? 0);
          lh_ext_offset := rfc5651_fixed_words x * 4 |}.
Proof.
  intros Hfit Hv Hfw Hlen.
  destruct (all_fit_layout x Hfit) as (Bv & Bc & Bp & Bs & Bo & Bh & Br & Ba & Bb & Bl & Bcp & Bcci & Btsi & Btoi).
  rewrite rfc5651_encode_split, pack_ids in *. rewrite <- pack_word, word_bytes in * by assumption.
  rewrite <- !app_assoc in *.
  destruct (flags_byte0 (r_v x) (r_c x) (r_psi x) Bv Bc Bp) as (F1 & F2).
  destruct (flags_byte1 (r_s x) (r_o x) (r_h x) (r_res x) (r_a x) (r_b x) Bs Bo Bh Br Ba Bb)
    as (G1 & G2 & G3 & G4 & G5).
  rewrite fixed_words_eq in *.
  rewrite (parse_lct_generic _ _ _ _ _ _ _ rest (r_v x) (r_c x) (r_s x) (r_o x) (r_h x) (r_a x) (r_b x));
    try assumption; try apply be_encode_length; try lia.
  f_equal. f_equal; try lia.
  - apply be_roundtrip_small. rewrite N2Nat.id, pow256, <- cci_bits_bytes. assumption.
  - apply be_roundtrip_small. rewrite N2Nat.id, pow256, <- tsi_bits_bytes. assumption.
  - apply be_roundtrip_small. rewrite N2Nat.id, pow256, <- toi_bits_bytes. assumption.
Qed.

(* the RFC decoder inverts the RFC encoder (sanity of the transcribed figure) *)
Lemma rfc5651_decode_encode x rest : all_fit (rfc5651_layout x) = true ->
  rfc5651_decode (rfc5651_encode x ++ rest) = Some (x, rest).
Proof.
  intros Hfit. unfold rfc5651_decode.
  assert (E : rfc5651_encode x = pack (rfc5651_word x) ++ pack (rfc5651_ids x))
    by (rewrite rfc5651_encode_split; reflexivity).
  rewrite E, <- app_assoc.
  assert (L4 : length (pack (rfc5651_word x)) = 4%nat) by reflexivity.
  destruct (Nat.ltb_spec (length (pack (rfc5651_word x) ++ pack (rfc5651_ids x) ++ rest)) 4) as [L|_].
  { rewrite app_length, L4 in L. lia. }
  set (W := pack (rfc5651_word x)) in *. set (I := pack (rfc5651_ids x)) in *.
  assert (F4 : firstn 4 (W ++ I ++ rest) = W).
  { rewrite <- L4. rewrite firstn_app, firstn_all, Nat.sub_diag. cbn [firstn]. apply app_nil_r. }
  assert (S4 : skipn 4 (W ++ I ++ rest) = I ++ rest).
  { rewrite <- L4. rewrite skipn_app, skipn_all, Nat.sub_diag. reflexivity. }
  rewrite F4, S4. unfold W.
  change rfc5651_word_widths with (map snd (rfc5651_word x)).
  rewrite unpack_pack by (try apply all_fit_word; auto).
  cbn [map fst rfc5651_word].
  assert (Ln : N.to_nat ((cci_bits (r_c x) + tsi_bits (r_s x) (r_h x) + toi_bits (r_o x) (r_h x)) / 8)
               = length I).
  { unfold I. rewrite pack_length. f_equal. f_equal. unfold rfc5651_ids. cbn [bits_of]. lia. }
  rewrite Ln.
  destruct (Nat.ltb_spec (length (I ++ rest)) (length I)) as [L|_].
  { rewrite app_length in L. lia. }
  rewrite firstn_app, firstn_all, Nat.sub_diag. cbn [firstn]. rewrite app_nil_r.
  change [cci_bits (r_c x); tsi_bits (r_s x) (r_h x); toi_bits (r_o x) (r_h x)]
    with (map snd (rfc5651_ids x)).
  unfold I at 1. rewrite unpack_pack.
  - cbn [map fst rfc5651_ids]. rewrite skipn_app, skipn_all, Nat.sub_diag. cbn [skipn app].
    destruct x; reflexivity.
  - apply all_fit_ids; assumption.
  - rewrite bits_of_ids. apply mod8_mul.
Qed.

(* ---------------------------------------------------------------------------------- *)
(* header extensions                                                                    *)
Lemma all_bytes_Forall c : all_bytes c = true -> Forall (fun b => b < 256) c.
Proof.
  unfold all_bytes. rewrite forallb_forall, Forall_forall. intros H b Hb.
  apply N.ltb_lt. apply (H b Hb).
Qed.

Lemma wf_ext_var het hel c : wf_ext (XVar het hel c) = true ->
  het < 128 /\ 1 <= hel /\ hel <= 255 /\ N.of_nat (length c) + 2 = 4 * hel
  /\ Forall (fun b => b < 256) c.
Proof.
  cbn [wf_ext]. rewrite !andb_true_iff, N.ltb_lt, !N.leb_le, N.eqb_eq.
  intros ((((A & B) & C) & D) & E). apply all_bytes_Forall in E. tauto.
Qed.

Lemma wf_ext_fix het c : wf_ext (XFix het c) = true ->
  128 <= het /\ het < 256 /\ length c = 3%nat /\ Forall (fun b => b < 256) c.
Proof.
  cbn [wf_ext]. rewrite !andb_true_iff, N.ltb_lt, N.leb_le, Nat.eqb_eq.
  intros (((A & B) & C) & D). apply all_bytes_Forall in D. tauto.
Qed.

Lemma pack_two_bytes a b : a < 256 -> b < 256 -> pack [(a, 8); (b, 8)] = [a; b].
Proof.
  intros Ha Hb. change [(a, 8); (b, 8)] with ([(a, 8)] ++ [(b, 8)]).
  rewrite pack_app by reflexivity. rewrite !pack_byte by assumption. reflexivity.
Qed.

Lemma ext_bytes_var het hel c : het < 128 -> hel <= 255 -> ext_bytes (XVar het hel c) = het :: hel :: c.
Proof. intros. cbn [ext_bytes]. rewrite pack_two_bytes by lia. reflexivity. Qed.

Lemma ext_bytes_fix het c : het < 256 -> ext_bytes (XFix het c) = het :: c.
Proof. intros. cbn [ext_bytes]. rewrite pack_byte by lia. reflexivity. Qed.

Lemma ext_bytes_length e : wf_ext e = true -> N.of_nat (length (ext_bytes e)) = 4 * ext_words e.
Proof.
  destruct e as [het hel c|het c]; intros W.
  - destruct (wf_ext_var _ _ _ W) as (A & B & C & D & _).
    rewrite ext_bytes_var by assumption. cbn [length ext_words]. lia.
  - destruct (wf_ext_fix _ _ W) as (A & B & C & _).
    rewrite ext_bytes_fix by assumption. cbn [length ext_words]. lia.
Qed.

Lemma exts_length es : forallb wf_ext es = true ->
  lenN (concat (map ext_bytes es)) = 4 * exts_words es /\ (length es <= length (concat (map ext_bytes es)))%nat.
Proof.
  induction es as [|e r IH]; intros W; [split; reflexivity|].
  cbn [forallb] in W. apply andb_true_iff in W as [We Wr]. specialize (IH Wr) as [I1 I2].
  cbn [map concat exts_words]. rewrite lenN_app, I1. unfold lenN.
  pose proof (ext_bytes_length e We) as L. rewrite L. split; [lia|].
  rewrite app_length. cbn [length].
  assert (1 <= ext_words e) by (destruct e as [het hel c|het c]; cbn [ext_words];
    [destruct (wf_ext_var _ _ _ We) as (_ & B & _); exact B | lia]).
  lia.
Qed.

(* (3) the extension walk returns the first extension with the requested HET, stepping over
   every other one, whatever its type and length (HEL up to 255 words) *)
Lemma get_ext_walk_spec es : forall fuel ext,
  forallb wf_ext es = true -> (length es < fuel)%nat ->
  get_ext_walk hel_bytes fuel (concat (map ext_bytes es)) ext
  = Ok (option_map ext_bytes (find_ext ext es)).
Proof.
  induction es as [|e r IH]; intros fuel ext W F.
  - destruct fuel as [|f]; [inversion F|]. reflexivity.
  - destruct fuel as [|f]; [inversion F|]. cbn [length] in F.
    cbn [forallb] in W. apply andb_true_iff in W as [We Wr].
    cbn [map concat find_ext]. set (rest := concat (map ext_bytes r)) in *.
    pose proof (ext_bytes_length e We) as Le.
    destruct e as [het hel c|het c]; cbn [ext_words] in Le.
    + destruct (wf_ext_var _ _ _ We) as (A & B & C & D & _).
      destruct c as [|c0 [|c1 c']]; cbn [length] in D; try lia.
      assert (HE : ext_bytes (XVar het hel (c0 :: c1 :: c')) ++ rest
                   = het :: hel :: c0 :: c1 :: c' ++ rest)
        by (rewrite ext_bytes_var by assumption; reflexivity).
      rewrite HE. cbn [get_ext_walk]. rewrite <- HE.
      destruct (N.leb_spec 128 het) as [G|_]; [lia|].
      unfold hel_bytes.
      destruct (N.eqb_spec (hel * 4) 0) as [G|_]; [lia|].
      destruct (N.ltb_spec (lenN (ext_bytes (XVar het hel (c0 :: c1 :: c')) ++ rest)) (hel * 4)) as [G|_].
      { rewrite lenN_app in G. unfold lenN in G. lia. }
      cbn [orb ext_het]. cbn [ext_words] in Le.
      replace (N.to_nat (hel * 4)) with (length (ext_bytes (XVar het hel (c0 :: c1 :: c')))) by lia.
      destruct (N.eqb_spec het ext) as [Eh|Eh].
      * rewrite firstn_app, firstn_all, Nat.sub_diag. cbn [firstn]. rewrite app_nil_r. reflexivity.
      * rewrite skipn_app, skipn_all, Nat.sub_diag. cbn [skipn app]. apply IH; [assumption|lia].
    + destruct (wf_ext_fix _ _ We) as (A & B & C & _).
      destruct c as [|c0 [|c1 [|c2 [|]]]]; cbn [length] in C; try lia.
      assert (HE : ext_bytes (XFix het [c0; c1; c2]) ++ rest = het :: c0 :: c1 :: c2 :: rest)
        by (rewrite ext_bytes_fix by assumption; reflexivity).
      rewrite HE. cbn [get_ext_walk]. rewrite <- HE.
      destruct (N.leb_spec 128 het) as [_|G]; [|lia].
      destruct (N.ltb_spec (lenN (ext_bytes (XFix het [c0; c1; c2]) ++ rest)) 4) as [G|_].
      { rewrite lenN_app in G. unfold lenN in G. cbn [ext_words] in Le. lia. }
      cbn [orb ext_het N.eqb Pos.eqb]. cbn [ext_words] in Le.
      replace (N.to_nat 4) with (length (ext_bytes (XFix het [c0; c1; c2]))) by lia.
      destruct (N.eqb_spec het ext) as [Eh|Eh].
      * rewrite firstn_app, firstn_all, Nat.sub_diag. cbn [firstn]. rewrite app_nil_r. reflexivity.
      * rewrite skipn_app, skipn_all, Nat.sub_diag. cbn [skipn app]. apply IH; [assumption|lia].
Qed.

Theorem ext_walk_skips_unknown_proof hdr es payload lct ext :
  forallb wf_ext es = true ->
  lh_ext_offset lct = lenN hdr ->
  lh_len lct = lenN hdr + lenN (concat (map ext_bytes es)) ->
  get_ext (hdr ++ concat (map ext_bytes es) ++ payload) lct ext
  = Ok (option_map ext_bytes (find_ext ext es)).
Proof.
  intros W Ho Hl. unfold get_ext, get_ext_gen. rewrite Ho, Hl.
  set (area := concat (map ext_bytes es)).
  destruct (N.ltb_spec (lenN hdr + lenN area) (lenN hdr)) as [G|_]; [lia|].
  destruct (N.ltb_spec (lenN (hdr ++ area ++ payload)) (lenN hdr + lenN area)) as [G|_].
  { rewrite !lenN_app in G. lia. }
  cbn [orb].
  replace (N.to_nat (lenN hdr)) with (length hdr) by (unfold lenN; lia).
  replace (N.to_nat (lenN hdr + lenN area)) with (length hdr + length area)%nat by (unfold lenN; lia).
  rewrite slice_app_mid. apply get_ext_walk_spec; [assumption|].
  destruct (exts_length es W) as [_ L]. fold area in L. lia.
Qed.

(* the RFC-side splitter inverts the RFC-side extension encoder *)
Lemma rfc_split_exts_spec es : forall fuel,
  forallb wf_ext es = true -> (length es <= fuel)%nat ->
  rfc_split_exts fuel (concat (map ext_bytes es)) = Some es.
Proof.
  induction es as [|e r IH]; intros fuel W F.
  - destruct fuel; reflexivity.
  - destruct fuel as [|f]; [inversion F|]. cbn [length] in F.
    cbn [forallb] in W. apply andb_true_iff in W as [We Wr].
    cbn [map concat]. set (rest := concat (map ext_bytes r)) in *.
    destruct e as [het hel c|het c].
    + destruct (wf_ext_var _ _ _ We) as (A & B & C & D & _).
      rewrite ext_bytes_var by assumption. cbn [app rfc_split_exts].
      destruct (N.leb_spec 128 het) as [G|_]; [lia|].
      destruct (N.eqb_spec hel 0) as [G|_]; [lia|].
      replace (N.to_nat (4 * hel - 2)) with (length c) by lia.
      destruct (Nat.ltb_spec (length (c ++ rest)) (length c)) as [G|_].
      { rewrite app_length in G. lia. }
      cbn [orb]. rewrite skipn_app, skipn_all, Nat.sub_diag. cbn [skipn app].
      rewrite IH by (assumption || lia).
      rewrite firstn_app, firstn_all, Nat.sub_diag. cbn [firstn]. rewrite app_nil_r. reflexivity.
    + destruct (wf_ext_fix _ _ We) as (A & B & C & _).
      rewrite ext_bytes_fix by assumption. cbn [app rfc_split_exts].
      destruct (N.leb_spec 128 het) as [_|G]; [|lia].
      destruct (Nat.ltb_spec (length (c ++ rest)) 3) as [G|_].
      { rewrite app_length in G. lia. }
      rewrite <- C. rewrite skipn_app, skipn_all, Nat.sub_diag. cbn [skipn app].
      rewrite IH by (assumption || lia).
      rewrite firstn_app, firstn_all, Nat.sub_diag. cbn [firstn]. rewrite app_nil_r. reflexivity.
Qed.

(* D3: with the u8 shift of the unfixed code an unknown 65-word extension in front of another
   extension makes the walk fail instead of skipping it *)
Definition d3_witness : list rfc_ext := [XVar 10 65 (repeat 0 258); XVar 64 1 [0; 0]].
Lemma ext_walk_refuted_unfixed :
  forallb wf_ext d3_witness = true
  /\ get_ext_walk hel_bytes_u8 300 (concat (map ext_bytes d3_witness)) 64
     <> Ok (option_map ext_bytes (find_ext 64 d3_witness))
  /\ get_ext_walk hel_bytes 300 (concat (map ext_bytes d3_witness)) 64
     = Ok (option_map ext_bytes (find_ext 64 d3_witness)).
Proof. vm_compute. repeat split; try reflexivity. discriminate. Qed.
