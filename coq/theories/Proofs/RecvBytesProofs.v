(* C04: bytes in, receiver model out.
   - reject_leaves_state: a datagram the parser refuses changes nothing (state, writer log, panic flag);
   - what the parser accepts is in the range the receiver-side totality proof needs ([pkt_ok]);
   - recv_push_all_total: any sequence of byte strings pushed into the receiver model keeps the
     invariant and never raises the panic flag. *)
From FluteV Require Import Model.AlcFixed Proofs.BytesProofs Proofs.AlcFixedProofs.
From FluteV Require Import Model.Recv Model.RecvBytes Proofs.RecvTotalProofs.
From Coq Require Import Lia.
Open Scope N_scope.

Arguments N.add : simpl never. Arguments N.mul : simpl never. Arguments N.sub : simpl never.
Arguments N.div : simpl never. Arguments N.modulo : simpl never. Arguments N.pow : simpl never.
Arguments N.eqb : simpl never. Arguments N.ltb : simpl never. Arguments N.leb : simpl never.
Arguments N.shiftr : simpl never. Arguments N.shiftl : simpl never. Arguments N.land : simpl never.
Arguments nth_error : simpl never. Arguments firstn : simpl never. Arguments skipn : simpl never.
Arguments be_decode : simpl never.

Definition bytes (l : list N) : Prop := Forall (fun b => b < 256) l.

Lemma bytes_firstn n l : bytes l -> bytes (firstn n l).
Proof.
  unfold bytes. revert l. induction n as [|n IH]; intros l H; [constructor|].
  destruct l as [|x l]; [constructor|]. inversion H; subst. change (firstn (S n) (x :: l)) with (x :: firstn n l).
  constructor; [assumption|apply IH; assumption].
Qed.
Lemma bytes_skipn n l : bytes l -> bytes (skipn n l).
Proof.
  unfold bytes. revert l. induction n as [|n IH]; intros l H; [exact H|].
  destruct l as [|x l]; [constructor|]. inversion H; subst. change (skipn (S n) (x :: l)) with (skipn n l). apply IH; assumption.
Qed.
Lemma bytes_slice l f t : bytes l -> bytes (slice l f t).
Proof. intros H. unfold slice. apply bytes_firstn. apply bytes_skipn. exact H. Qed.

Lemma cbe_lt l f t v : bytes l -> cbe l f t = Bytes.Ok v -> v < 256 ^ N.of_nat (t - f).
Proof.
  intros Hb. unfold cbe, cslice.
  destruct (Nat.ltb_spec t f); [discriminate|]. destruct (Nat.ltb_spec (length l) t); [discriminate|].
  cbn [orb rbind]. intros Hx; inversion Hx; subst.
  rewrite <- (slice_length l f t) by lia. apply be_decode_lt. apply bytes_slice. exact Hb.
Qed.

(* ---------- the extension found by get_ext is made of the datagram's bytes ---------- *)
Lemma get_ext_walk_bytes ext : forall fuel e x, bytes e -> get_ext_walk hel_bytes fuel e ext = Bytes.Ok (Some x) -> bytes x.
Proof.
  induction fuel as [|fuel IH]; intros e x Hb; cbn [get_ext_walk]; [discriminate|].
  destruct e as [|het [|b1 [|b2 [|b3 r]]]]; try discriminate.
  set (e := het :: b1 :: b2 :: b3 :: r) in *.
  destruct ((_ =? 0) || _); [discriminate|].
  destruct (het =? ext).
  - intros H; inversion H; subst. apply bytes_firstn. exact Hb.
  - apply IH. apply bytes_skipn. exact Hb.
Qed.

Lemma get_ext_bytes data h ext x : bytes data -> get_ext data h ext = Bytes.Ok (Some x) -> bytes x.
Proof.
  intros Hb. unfold get_ext, get_ext_gen. destruct (_ || _); [discriminate|].
  apply get_ext_walk_bytes. apply bytes_slice. exact Hb.
Qed.

(* ---------- ranges of what EXT_FTI can carry ---------- *)
Definition fti_in_range (r : AlcTypes.oti * N) : Prop := snd r < 2 ^ 48 /\ o_E (fst r) < 65536.

Lemma shiftr_lt a k n : a < 2 ^ (n + k) -> N.shiftr a k < 2 ^ n.
Proof.
  intros H. rewrite shiftr_div. apply N.div_lt_upper_bound; [apply N.pow_nonzero; lia|].
  rewrite <- N.pow_add_r. rewrite N.add_comm. exact H.
Qed.

Lemma land_mask48 a : N.land a MASK48 < 2 ^ 48.
Proof.
  change MASK48 with (2 ^ 48 - 1). rewrite land_ones_mod. apply N.mod_upper_bound. apply N.pow_nonzero. lia.
Qed.

Ltac crunch :=
  repeat first
    [ match goal with |- (if ?c then Bytes.Err else _) = _ -> _ => destruct c; [discriminate|] end
    | match goal with |- rbind ?x _ = _ -> _ =>
        let Eq := fresh "Eq" in destruct x eqn:Eq; cbn [rbind]; try discriminate end ].

Ltac fin Hb :=
  let H := fresh "H" in
  intros H; inversion H; subst; split; cbn [fst snd o_E];
  [ first [ apply land_mask48
          | match goal with Hc : cbe _ _ _ = Bytes.Ok ?v |- N.shiftr ?v 16 < _ =>
              apply shiftr_lt; apply (cbe_lt _ _ _ _ Hb) in Hc; exact Hc end
          | match goal with Hc : cbe _ _ _ = Bytes.Ok ?v |- N.shiftr ?v 24 < _ =>
              apply N.lt_le_trans with (2 ^ 40); [apply shiftr_lt; apply (cbe_lt _ _ _ _ Hb) in Hc; exact Hc
                                                 |apply N.pow_le_mono_r; lia] end ]
  | match goal with Hc : cbe _ _ _ = Bytes.Ok ?v |- ?v < 65536 => apply (cbe_lt _ _ _ _ Hb) in Hc; exact Hc end ].

Lemma parse_fti_fixed_range f fti r : bytes fti -> parse_fti_fixed f fti = Bytes.Ok r -> fti_in_range r.
Proof.
  intros Hb. destruct f; cbn [parse_fti_fixed].
  - unfold parse_fti_nocode_c. crunch. fin Hb.
  - unfold parse_fti_raptor_c. crunch. fin Hb.
  - unfold parse_fti_rs2m_c. crunch. fin Hb.
  - unfold parse_fti_rs28_fixed. crunch. fin Hb.
  - unfold parse_fti_raptorq_c. crunch. fin Hb.
  - unfold parse_fti_rs28us_c. crunch. fin Hb.
Qed.

(* ---------- what the parser accepts is what the receiver-side proof asks of a packet ---------- *)
Lemma parse_alc_pkt_fixed_fti data a :
  bytes data -> parse_alc_pkt_fixed data = Bytes.Ok a ->
  forall o l, Alc.a_oti a = Some o -> Alc.a_transfer_length a = Some l -> fti_in_range (o, l).
Proof.
  intros Hb. unfold parse_alc_pkt_fixed.
  destruct (parse_lct_header_fixed data) as [h| | |]; cbn [rbind]; try discriminate.
  destruct (fec_of_code (lh_cp h)) as [fec|]; [|discriminate].
  destruct (lenN data <? pid_block_length fec + lh_len h); [discriminate|].
  unfold get_fti_fixed at 1.
  destruct (get_ext data h 64) as [[fti|]| | |] eqn:Eg; cbn [rbind]; try discriminate.
  - destruct (parse_fti_fixed fec fti) as [r| | |] eqn:Ep; cbn [rbind]; try discriminate.
    pose proof (parse_fti_fixed_range fec fti r (get_ext_bytes _ _ _ _ Hb Eg) Ep) as R.
    destruct (get_ext data h 193) as [ce| | |]; cbn [rbind]; try discriminate.
    destruct (if lh_toi h =? 0 then _ else _) as [fdt| | |]; cbn [rbind]; try discriminate.
    intros H; inversion H; subst. cbn [Alc.a_oti Alc.a_transfer_length option_map].
    intros o l Ho Hl. inversion Ho; inversion Hl; subst. destruct r; exact R.
  - destruct (get_ext data h 193) as [ce| | |]; cbn [rbind]; try discriminate.
    destruct (if lh_toi h =? 0 then _ else _) as [fdt| | |]; cbn [rbind]; try discriminate.
    intros H; inversion H; subst. cbn [Alc.a_oti option_map]. intros o l Ho; discriminate.
Qed.

Lemma pkt_ok_of_parse data a :
  bytes data -> parse_alc_pkt_fixed data = Bytes.Ok a -> pkt_ok (to_apkt data a).
Proof.
  intros Hb Hp ot l. unfold to_apkt. cbn [a_oti].
  destruct (Alc.a_oti a) as [o|] eqn:Eo; [|discriminate].
  destruct (Alc.a_transfer_length a) as [tl|] eqn:El; [|discriminate].
  intros H; inversion H; subst.
  destruct (parse_alc_pkt_fixed_fti data a Hb Hp o l Eo El) as [R1 R2]. cbn [fst snd] in *.
  split.
  - unfold tl_ok, Partition.U64. change (2 ^ 48) with 281474976710656 in R1. lia.
  - unfold e_ok, roti_of. cbn [ro_e]. exact R2.
Qed.

Section R.
  Variable E : env.
  Variable parse_fdt : list N -> option fdtinst.
  Variable cfg : rconfig.
  Variable tsi : N.
  Hypothesis parse_fdt_ok : forall xml i, parse_fdt xml = Some i -> inst_ok i.

  (* reject_leaves_state: a datagram the parser does not accept has no effect at all *)
  Theorem reject_leaves_state r data now c :
    (forall a, parse_alc_pkt_fixed data <> Bytes.Ok a) ->
    recv_push_data E parse_fdt cfg tsi r data now c = (PErr, r, c).
  Proof.
    intros Hn. unfold recv_push_data. pose proof (parse_alc_pkt_fixed_total data) as T.
    destruct (parse_alc_pkt_fixed data) as [a| | |]; try discriminate; [|reflexivity].
    exfalso. exact (Hn a eq_refl).
  Qed.

  (* every datagram shorter than the smallest LCT header is such a datagram *)
  Corollary short_datagram_leaves_state r data now c :
    lenN data < 8 -> recv_push_data E parse_fdt cfg tsi r data now c = (PErr, r, c).
  Proof.
    intros H. apply reject_leaves_state. intros a Ha. rewrite parse_alc_pkt_fixed_short in Ha by exact H. discriminate.
  Qed.

  (* and it is the event [RvUnparsable] of the receiver model *)
  Lemma rejected_is_unparsable r data now c :
    (forall a, parse_alc_pkt_fixed data <> Bytes.Ok a) ->
    event_of tsi data now = Some RvUnparsable /\
    recv_push_data E parse_fdt cfg tsi r data now c = recv_step E parse_fdt cfg r RvUnparsable c.
  Proof.
    intros Hn. split; [|rewrite reject_leaves_state by exact Hn; reflexivity].
    unfold event_of. destruct (parse_alc_pkt_fixed data) as [a| | |]; try reflexivity. exfalso. exact (Hn a eq_refl).
  Qed.

  (* a datagram of another session is ignored *)
  Lemma foreign_tsi_leaves_state r data now c a :
    parse_alc_pkt_fixed data = Bytes.Ok a -> lh_tsi (Alc.a_lct a) <> tsi ->
    recv_push_data E parse_fdt cfg tsi r data now c = (POk, r, c).
  Proof.
    intros Hp Ht. unfold recv_push_data. rewrite Hp. destruct (N.eqb_spec (lh_tsi (Alc.a_lct a)) tsi); [contradiction|reflexivity].
  Qed.

  Theorem recv_push_data_total r data now c :
    rinv r -> bytes data ->
    rinv (snd (fst (recv_push_data E parse_fdt cfg tsi r data now c)))
    /\ np c (snd (recv_push_data E parse_fdt cfg tsi r data now c)).
  Proof.
    intros I Hb. unfold recv_push_data. pose proof (parse_alc_pkt_fixed_total data) as T.
    destruct (parse_alc_pkt_fixed data) as [a| | |] eqn:Hp; try discriminate; cbn [fst snd]; [|split; [exact I|apply np_refl]].
    destruct (lh_tsi (Alc.a_lct a) =? tsi); cbn [fst snd]; [|split; [exact I|apply np_refl]].
    apply recv_step_ok; [exact parse_fdt_ok|exact I|]. cbn [ev_ok]. apply pkt_ok_of_parse; assumption.
  Qed.

  (* recv_step_total on raw bytes: any sequence of byte strings *)
  Theorem recv_push_all_total : forall ds r now c,
    rinv r -> Forall bytes ds -> c_panic c = false ->
    rinv (snd (fst (recv_push_all E parse_fdt cfg tsi r ds now c)))
    /\ c_panic (snd (recv_push_all E parse_fdt cfg tsi r ds now c)) = false.
  Proof.
    induction ds as [|d rest IH]; intros r now c I HF Hc; cbn [recv_push_all fst snd]; [split; assumption|].
    inversion HF as [|? ? Hd Hr]; subst.
    destruct (recv_push_data_total r d now c I Hd) as [I1 N1].
    destruct (recv_push_data E parse_fdt cfg tsi r d now c) as [[x r1] c1]. cbn [fst snd] in *.
    destruct (IH r1 now c1 I1 Hr (N1 Hc)) as [I2 N2].
    destruct (recv_push_all E parse_fdt cfg tsi r1 rest now c1) as [[xs r2] c2]. cbn [fst snd] in *.
    split; assumption.
  Qed.
End R.
