(* Proofs for C05 (Model/Path.v, Spec/C05Spec.v). *)
From FluteV Require Import Model.Path Spec.C05Spec.
From Coq Require Import Lia.
Open Scope N_scope.

(* ---------------------------------------------------------------- strings *)
Lemma str_eqb_eq a b : str_eqb a b = true <-> a = b.
Proof.
  revert b. induction a as [|x a IH]; intros [|y b]; cbn; try (split; congruence).
  rewrite andb_true_iff, N.eqb_eq, IH. split; [intros [-> ->]; reflexivity|intros [= -> ->]; auto].
Qed.

Lemma str_eqb_refl a : str_eqb a a = true.
Proof. apply str_eqb_eq. reflexivity. Qed.

Lemma str_eqb_neq a b : str_eqb a b = false <-> a <> b.
Proof.
  split; intros H.
  - intros E. apply str_eqb_eq in E. congruence.
  - destruct (str_eqb a b) eqn:E; [apply str_eqb_eq in E; contradiction|reflexivity].
Qed.

Lemma path_eqb_eq a b : path_eqb a b = true <-> a = b.
Proof.
  revert b. induction a as [|x a IH]; intros [|y b]; cbn; try (split; congruence).
  rewrite andb_true_iff, str_eqb_eq, IH. split; [intros [-> ->]; reflexivity|intros [= -> ->]; auto].
Qed.

(* ---------------------------------------------------------------- split_slash *)
Lemma split_slash_nonempty s : split_slash s <> [].
Proof.
  destruct s as [|c r]; cbn; [discriminate|].
  destruct (c =? slash); [discriminate|]. destruct (split_slash r); discriminate.
Qed.

Lemma split_app_slash a b : split_slash (a ++ slash :: b) = split_slash a ++ split_slash b.
Proof.
  induction a as [|c a IH]; cbn [app split_slash].
  - rewrite N.eqb_refl. reflexivity.
  - destruct (c =? slash).
    + rewrite IH. reflexivity.
    + rewrite IH. pose proof (split_slash_nonempty a) as NE.
      destruct (split_slash a) as [|h t]; [contradiction|reflexivity].
Qed.

Lemma split_no_slash s x : In x (split_slash s) -> ~ In slash x.
Proof.
  revert x. induction s as [|c r IH]; cbn [split_slash]; intros x H.
  - destruct H as [<-|[]]. intros [].
  - destruct (N.eqb_spec c slash) as [E|NE].
    + destruct H as [<-|H]; [intros []|auto].
    + pose proof (split_slash_nonempty r) as N0.
      destruct (split_slash r) as [|h t]; [contradiction|].
      destruct H as [<-|H].
      * intros [E|I]; [congruence|]. apply (IH h); [left; reflexivity|assumption].
      * apply IH. right. assumption.
Qed.

(* ---------------------------------------------------------------- components *)
Definition tail_comps (p : str) : list comp := flat_map comp_of_piece (split_slash p).

Lemma components_eq p : components p = head_comps p ++ tail_comps p.
Proof. reflexivity. Qed.

Lemma comp_of_piece_cases s c : In c (comp_of_piece s) ->
  c = ParentDir \/ (c = Normal s /\ s <> [] /\ s <> [dot] /\ s <> [dot; dot]).
Proof.
  unfold comp_of_piece. destruct s as [|x s']; [intros []|].
  set (s := x :: s').
  destruct (str_eqb s [dot]) eqn:E1; [intros []|].
  destruct (str_eqb s [dot; dot]) eqn:E2; intros [<-|[]]; [left; reflexivity|].
  right. repeat split; try discriminate.
  - apply str_eqb_neq. assumption.
  - apply str_eqb_neq. assumption.
Qed.

Lemma tail_comps_cases p c : In c (tail_comps p) ->
  c = ParentDir \/ exists s, c = Normal s /\ normal_name s.
Proof.
  unfold tail_comps. rewrite in_flat_map. intros (s & Hs & Hc).
  apply comp_of_piece_cases in Hc. destruct Hc as [->|(-> & A & B & C)]; [left; reflexivity|].
  right. exists s. split; [reflexivity|]. repeat split; try assumption.
  eapply split_no_slash. eassumption.
Qed.

Lemma allowed_tail l :
  (forall c, In c l -> c = ParentDir \/ exists s, c = Normal s /\ normal_name s) ->
  forallb comp_allowed l = true ->
  exists names, l = map Normal names /\ Forall normal_name names.
Proof.
  induction l as [|c l IH]; intros H A.
  - exists []. split; [reflexivity|constructor].
  - cbn in A. apply andb_true_iff in A. destruct A as [A1 A2].
    destruct IH as (names & -> & F); [intros; apply H; right; assumption|assumption|].
    destruct (H c (or_introl eq_refl)) as [->|(s & -> & N)]; [discriminate|].
    exists (s :: names). split; [reflexivity|constructor; assumption].
Qed.

Lemma head_comps_cases p :
  (has_root p = true /\ head_comps p = [RootDir]) \/
  (has_root p = false /\ (head_comps p = [CurDir] \/ head_comps p = [])).
Proof.
  unfold head_comps. destruct (has_root p); [left; auto|right; split; [reflexivity|]].
  destruct (include_cur_dir p); auto.
Qed.

(* what the added check guarantees about the relative path *)
Lemma rel_ok_shape rel : rel_ok rel = true ->
  has_root rel = false /\
  exists names, names <> [] /\ Forall normal_name names /\ tail_comps rel = map Normal names /\
                (head_comps rel = [] \/ head_comps rel = [CurDir]).
Proof.
  unfold rel_ok. rewrite andb_true_iff, components_eq. intros [A E].
  rewrite forallb_app in A. apply andb_true_iff in A. destruct A as [Ah At].
  destruct (head_comps_cases rel) as [[R Hh]|[R Hh]].
  - rewrite Hh in Ah. discriminate.
  - split; [assumption|].
    destruct (allowed_tail (tail_comps rel) (tail_comps_cases rel) At) as (names & Et & F).
    exists names. repeat split; try assumption.
    + intros ->. rewrite Et in E. rewrite existsb_app in E. cbn in E.
      destruct Hh as [Hh|Hh]; rewrite Hh in E; discriminate.
    + destruct Hh; auto.
Qed.

Lemma head_comps_app_slash d x : d <> [] -> head_comps (d ++ slash :: x) = head_comps d.
Proof.
  intros NE. destruct d as [|c [|e t]]; [contradiction| |].
  - unfold head_comps, include_cur_dir, has_root. cbn [app]. rewrite N.eqb_refl, andb_true_r. reflexivity.
  - reflexivity.
Qed.

Lemma last_opt_snoc {A} (l : list A) : l <> [] -> exists l0 c, l = l0 ++ [c] /\ last_opt l = Some c.
Proof.
  induction l as [|x l IH]; [contradiction|intros _].
  destruct l as [|y l'].
  - exists [], x. split; reflexivity.
  - destruct IH as (l0 & c & E & L); [discriminate|].
    exists (x :: l0), c. split; [cbn; rewrite <- E; reflexivity|exact L].
Qed.

Lemma tail_comps_app_slash a b : tail_comps (a ++ slash :: b) = tail_comps a ++ tail_comps b.
Proof. unfold tail_comps. rewrite split_app_slash, flat_map_app. reflexivity. Qed.

Lemma tail_comps_nil : tail_comps [] = [].
Proof. reflexivity. Qed.

(* PathBuf::join with a relative right operand appends its components *)
Lemma components_join dest rel : dest <> [] -> has_root rel = false ->
  components (join dest rel) = components dest ++ tail_comps rel.
Proof.
  intros NE NR. unfold join. rewrite NR.
  destruct (last_opt_snoc dest NE) as (d0 & c & E & L). unfold need_sep. rewrite L.
  destruct (N.eqb_spec c slash) as [Ec|Nc]; cbn [negb].
  - subst c. cbn [app]. rewrite E, <- app_assoc. cbn [app].
    rewrite !components_eq, !tail_comps_app_slash, tail_comps_nil, app_nil_r, app_assoc. f_equal. f_equal.
    destruct d0 as [|x d0']; [reflexivity|].
    rewrite !head_comps_app_slash by discriminate. reflexivity.
  - cbn [app]. rewrite !components_eq, tail_comps_app_slash, head_comps_app_slash by assumption.
    rewrite app_assoc. reflexivity.
Qed.

(* ---------------------------------------------------------------- walk *)
Lemma walk_app st a b : walk st (a ++ b) = walk (walk st a) b.
Proof.
  revert st. induction a as [|c a IH]; intros st; [reflexivity|].
  destruct c; cbn [app walk]; apply IH.
Qed.

Lemma walk_normals st names : walk st (map Normal names) = st ++ names.
Proof.
  revert st. induction names as [|n names IH]; intros st; cbn [map walk].
  - rewrite app_nil_r. reflexivity.
  - rewrite IH, <- app_assoc. reflexivity.
Qed.

(* ---------------------------------------------------------------- prefixes *)
Lemma prefixes_app {A} (a b : list A) q : In q (prefixes (a ++ b)) ->
  In q (prefixes a) \/ exists b', In b' (prefixes b) /\ q = a ++ b'.
Proof.
  revert q. induction a as [|x a IH]; intros q H; cbn [app] in *.
  - right. exists q. auto.
  - cbn [prefixes] in H. destruct H as [<-|H].
    + left. left. reflexivity.
    + apply in_map_iff in H. destruct H as (q' & <- & H). apply IH in H.
      destruct H as [H|(b' & H & ->)].
      * left. right. apply in_map. assumption.
      * right. exists b'. auto.
Qed.

Lemma prefixes_spec {A} (l q : list A) : In q (prefixes l) -> q <> [] /\ exists r, l = q ++ r.
Proof.
  revert q. induction l as [|x l IH]; intros q H; [destruct H|].
  cbn [prefixes] in H. destruct H as [<-|H].
  - split; [discriminate|]. exists l. reflexivity.
  - apply in_map_iff in H. destruct H as (q' & <- & H). destruct (IH _ H) as (_ & r & ->).
    split; [discriminate|]. exists r. reflexivity.
Qed.

Lemma prefixes_map {A B} (f : A -> B) l : prefixes (map f l) = map (map f) (prefixes l).
Proof.
  induction l as [|x l IH]; [reflexivity|]. cbn [map prefixes]. rewrite IH, !map_map. reflexivity.
Qed.

Lemma parent_comps_snoc_normal l s : parent_comps (l ++ [Normal s]) = Some l.
Proof. unfold parent_comps. rewrite rev_app_distr. cbn. rewrite rev_involutive. reflexivity. Qed.

Lemma Forall_app_l {A} (P : A -> Prop) a b : Forall P (a ++ b) -> Forall P a.
Proof. intros H. apply Forall_app in H. tauto. Qed.

(* ---------------------------------------------------------------- the mapped path *)
Lemma map_path_some dest loc u p : map_path dest loc u = Some p ->
  exists cp, content_location_path loc u = Some cp /\ rel_ok (strip_slash cp) = true /\
             p = join dest (strip_slash cp).
Proof.
  unfold map_path. destruct (content_location_path loc u) as [cp|]; [|discriminate].
  destruct (rel_ok (strip_slash cp)) eqn:E; [|discriminate]. intros [= <-]. exists cp. auto.
Qed.

(* fs_confined, component form *)
Lemma map_path_components_proof dest loc u p : dest <> [] -> map_path dest loc u = Some p ->
  exists names, names <> [] /\ Forall normal_name names /\
                components p = components dest ++ map Normal names.
Proof.
  intros NE H. destruct (map_path_some _ _ _ _ H) as (cp & _ & OK & ->).
  destruct (rel_ok_shape _ OK) as (NR & names & N0 & F & Et & _).
  exists names. repeat split; try assumption.
  rewrite components_join by assumption. rewrite Et. reflexivity.
Qed.

(* the shape used by all confinement proofs; also covers dest = "" *)
Lemma map_path_shape cwd dest loc u p : map_path dest loc u = Some p ->
  exists hd names, names <> [] /\ Forall normal_name names /\
    components p = hd ++ map Normal names /\
    walk cwd hd = walk cwd (components dest) /\
    (forall q, In q (prefixes hd) ->
       exists q', (q' = [] \/ In q' (prefixes (components dest))) /\ walk cwd q = walk cwd q').
Proof.
  intros H. destruct dest as [|c0 dest0].
  - destruct (map_path_some _ _ _ _ H) as (cp & _ & OK & ->).
    destruct (rel_ok_shape _ OK) as (NR & names & N0 & F & Et & Hh).
    exists (head_comps (strip_slash cp)), names. repeat split; try assumption.
    + unfold join. rewrite NR. cbn [need_sep last_opt app]. rewrite components_eq, Et. reflexivity.
    + destruct Hh as [-> | ->]; reflexivity.
    + intros q Hq. exists []. split; [left; reflexivity|].
      destruct Hh as [E|E]; rewrite E in Hq; cbn in Hq; [destruct Hq|].
      destruct Hq as [<-|[]]. reflexivity.
  - destruct (map_path_components_proof (c0 :: dest0) loc u p ltac:(discriminate) H) as (names & N0 & F & E).
    exists (components (c0 :: dest0)), names. repeat split; try assumption.
    intros q Hq. exists q. split; [right; assumption|reflexivity].
Qed.

(* fs_confined: wherever the process stands, the mapped path leads strictly below the place
   the destination directory leads to, through names only *)
Lemma map_path_walk_proof cwd dest loc u p : map_path dest loc u = Some p ->
  strictly_inside (walk cwd (components dest)) (walk cwd (components p)).
Proof.
  intros H. destruct (map_path_shape cwd _ _ _ _ H) as (hd & names & N0 & F & E & W & _).
  exists names. repeat split; try assumption.
  rewrite E, walk_app, walk_normals, W. reflexivity.
Qed.

(* directories create_dir_all(parent) may have to create *)
Lemma map_path_parent_proof cwd dest loc u p : map_path dest loc u = Some p ->
  exists d, parent_comps (components p) = Some d /\
    forall q, In q (prefixes d) ->
      (exists q', (q' = [] \/ In q' (prefixes (components dest))) /\ walk cwd q = walk cwd q')
      \/ strictly_inside (walk cwd (components dest)) (walk cwd q).
Proof.
  intros H. destruct (map_path_shape cwd _ _ _ _ H) as (hd & names & N0 & F & E & W & Hp).
  destruct (exists_last N0) as (n0 & l & ->).
  exists (hd ++ map Normal n0). split.
  - rewrite E, map_app, app_assoc. apply parent_comps_snoc_normal.
  - intros q Hq. apply prefixes_app in Hq. destruct Hq as [Hq|(b' & Hb & ->)].
    + left. apply Hp. assumption.
    + right. rewrite prefixes_map in Hb. apply in_map_iff in Hb. destruct Hb as (n' & <- & Hn).
      destruct (prefixes_spec _ _ Hn) as (NE & r & ->).
      exists n'. repeat split; try assumption.
      * apply Forall_app_l in F. apply Forall_app_l in F. assumption.
      * rewrite walk_app, walk_normals, W. reflexivity.
Qed.

(* fs_unmappable_fails, path part: exactly the locations with a root, a `..` or no name are refused *)
Lemma map_path_none_iff dest loc u : map_path dest loc u = None <->
  match content_location_path loc u with
  | None => True
  | Some cp => rel_ok (strip_slash cp) = false
  end.
Proof.
  unfold map_path. destruct (content_location_path loc u) as [cp|]; [|tauto].
  destruct (rel_ok (strip_slash cp)); split; congruence.
Qed.

(* the fix removes nothing that was mapped inside before *)
Lemma map_path_conservative dest loc u p : map_path dest loc u = Some p -> map_path_unfixed dest loc u = Some p.
Proof.
  intros H. destruct (map_path_some _ _ _ _ H) as (cp & E & _ & ->). unfold map_path_unfixed. rewrite E. reflexivity.
Qed.

(* ---------------------------------------------------------------- the writer object *)
Definition effect_on (p : str) (e : effect) : Prop :=
  match e with
  | EMkdirAll d => parent_comps (components p) = Some d
  | ECreate q | EWrite q | ERemove q => q = p
  end.

Definition winv (p : str) (s : wstate) : Prop :=
  (forall q, destination s = Some q -> q = p) /\ (forall q, writer s = Some q -> q = p).

Lemma winv_init p : winv p winit.
Proof. split; cbn; discriminate. Qed.

Lemma flush_on p s : winv p s -> Forall (effect_on p) (flush_of (writer s)).
Proof.
  intros [_ W]. unfold flush_of. destruct (writer s) as [q|]; [|constructor].
  constructor; [cbn; auto|constructor].
Qed.

Lemma winv_fresh p : winv p {| destination := Some p; writer := Some p |}.
Proof. split; cbn; intros q [= <-]; reflexivity. Qed.

Lemma winv_closed p : winv p {| destination := None; writer := None |}.
Proof. split; cbn; discriminate. Qed.

Lemma wstep_on p s o : winv p s ->
  winv p (fst (fst (wstep (Some p) s o))) /\ Forall (effect_on p) (snd (fst (wstep (Some p) s o))).
Proof.
  intros I. pose proof (flush_on p s I) as Fl. pose proof I as [Id Iw].
  destruct o as [e|ok| | |]; cbn [wstep].
  - destruct (parent_comps (components p)) as [d|] eqn:Ep.
    + destruct (parent_is_dir e), (mkdir_all_ok e), (create_ok e); cbn [fst snd];
        (split; [try apply winv_fresh; try assumption|]);
        repeat (constructor; try (cbn; auto; fail)); try assumption.
    + destruct (create_ok e); cbn [fst snd]; (split; [try apply winv_fresh; try assumption|]);
        repeat (constructor; try (cbn; auto; fail)); try assumption.
  - destruct (writer s) as [q|] eqn:W; cbn [fst snd]; (split; [assumption|]); [|constructor].
    constructor; [cbn; apply Iw; reflexivity|constructor].
  - destruct (writer s) as [q|] eqn:W; cbn [fst snd]; (split; [try apply winv_closed; try assumption|]); [|constructor].
    constructor; [cbn; apply Iw; reflexivity|constructor].
  - cbn [fst snd]. split; [apply winv_closed|]. apply Forall_app. split; [assumption|].
    destruct (destination s) as [q|] eqn:D; [|constructor]. constructor; [cbn; apply Id; reflexivity|constructor].
  - cbn [fst snd]. split; [apply winv_closed|]. apply Forall_app. split; [assumption|].
    destruct (destination s) as [q|] eqn:D; [|constructor]. constructor; [cbn; apply Id; reflexivity|constructor].
Qed.

Lemma wrun_cons mp s o r :
  wrun mp s (o :: r) = snd (fst (wstep mp s o)) ++ wrun mp (fst (fst (wstep mp s o))) r.
Proof. cbn [wrun]. destruct (wstep mp s o) as [[s' ef] x]. reflexivity. Qed.

Lemma wfinal_cons mp s o r : wfinal mp s (o :: r) = wfinal mp (fst (fst (wstep mp s o))) r.
Proof. cbn [wfinal]. destruct (wstep mp s o) as [[s' ef] x]. reflexivity. Qed.

(* every effect of every call sequence is on the mapped path (or create_dir_all of its parent) *)
Lemma wrun_on p ops : forall s, winv p s -> Forall (effect_on p) (wrun (Some p) s ops).
Proof.
  induction ops as [|o r IH]; intros s I; [constructor|].
  rewrite wrun_cons. destruct (wstep_on p s o I) as [I' F]. apply Forall_app. split; [assumption|].
  apply IH. assumption.
Qed.

(* fs_unmappable_fails: a writer whose location is refused performs no file-system call at
   all, whatever is called on it, and every open returns an error *)
Lemma wrun_unmappable ops : forall s, destination s = None -> writer s = None ->
  wrun None s ops = [] /\ wfinal None s ops = {| destination := None; writer := None |} /\
  forall e, In (Open e) ops -> In RErr (wresults None s ops).
Proof.
  induction ops as [|o r IH]; intros [d w] D W; cbn in D, W; subst d w.
  - repeat split. intros e [].
  - destruct o as [e|ok| | |]; cbn [wrun wfinal wresults wstep writer destination flush_of app];
      destruct (IH {| destination := None; writer := None |} eq_refl eq_refl) as (A & B & C);
      repeat split; try assumption.
    + intros e' _. left. reflexivity.
    + intros e' [H|H]; [discriminate|]. right. eapply C. eassumption.
    + intros e' [H|H]; [discriminate|]. right. eapply C. eassumption.
    + intros e' [H|H]; [discriminate|]. right. eapply C. eassumption.
    + intros e' [H|H]; [discriminate|]. right. eapply C. eassumption.
Qed.

Lemma unmappable_fails_proof dest loc u :
  map_path dest loc u = None ->
  (forall s e, wstep (map_path dest loc u) s (Open e) = (s, [], RErr)) /\
  (forall ops, wrun (map_path dest loc u) winit ops = []).
Proof.
  intros ->. split; [reflexivity|].
  intros ops. exact (proj1 (wrun_unmappable ops winit eq_refl eq_refl)).
Qed.

(* the writer confined, all call sequences, all file-system outcomes, all URL parser outcomes *)
Lemma writer_confined_proof cwd dest loc u pre_dirs ops :
  pmem cwd pre_dirs = true -> dest_exists cwd dest pre_dirs = true ->
  Forall (effect_confined cwd (walk cwd (components dest)) pre_dirs) (wrun (map_path dest loc u) winit ops).
Proof.
  intros Hc Hd. destruct (map_path dest loc u) as [p|] eqn:M.
  - pose proof (wrun_on p ops winit (winv_init p)) as F.
    eapply Forall_impl; [|exact F]. intros e He.
    destruct e as [d|q|q|q]; cbn in He; cbn [effect_confined].
    + destruct (map_path_parent_proof cwd _ _ _ _ M) as (d' & Ed & Hq).
      rewrite Ed in He. injection He as <-. intros q Iq Npre.
      destruct (Hq q Iq) as [(q' & [->|Iq'] & Ew)|S]; [| |assumption].
      * rewrite Ew in Npre. cbn [walk] in Npre. congruence.
      * unfold dest_exists in Hd. rewrite forallb_forall in Hd. specialize (Hd q' Iq').
        rewrite Ew in Npre. congruence.
    + subst q. apply map_path_walk_proof with (loc := loc) (u := u). assumption.
    + subst q. apply map_path_walk_proof with (loc := loc) (u := u). assumption.
    + subst q. apply map_path_walk_proof with (loc := loc) (u := u). assumption.
  - destruct (wrun_unmappable ops winit eq_refl eq_refl) as (-> & _). constructor.
Qed.

(* fs_remove_is_created *)
Fixpoint removes_created (created : list str) (ef : list effect) : Prop :=
  match ef with
  | [] => True
  | ECreate p :: r => removes_created (p :: created) r
  | ERemove p :: r => In p created /\ removes_created created r
  | _ :: r => removes_created created r
  end.

Fixpoint creates (ef : list effect) : list str :=
  match ef with
  | [] => []
  | ECreate p :: r => creates r ++ [p]
  | _ :: r => creates r
  end.

Lemma rc_mono ef : forall c c', (forall x, In x c -> In x c') -> removes_created c ef -> removes_created c' ef.
Proof.
  induction ef as [|e r IH]; intros c c' S H; [exact I|].
  destruct e; cbn in *.
  - eapply IH; eassumption.
  - eapply IH; [|eassumption]. intros x [->|Hx]; [left; reflexivity|right; auto].
  - eapply IH; eassumption.
  - destruct H as [H1 H2]. split; [auto|]. eapply IH; eassumption.
Qed.

Lemma rc_app a : forall c b, removes_created c a -> removes_created (creates a ++ c) b -> removes_created c (a ++ b).
Proof.
  induction a as [|e r IH]; intros c b Ha Hb; [exact Hb|].
  destruct e; cbn in *.
  - apply IH; assumption.
  - apply IH; [assumption|]. eapply rc_mono; [|eassumption].
    intros x Hx. rewrite <- app_assoc in Hx. exact Hx.
  - apply IH; assumption.
  - destruct Ha as [H1 H2]. split; [assumption|]. apply IH; assumption.
Qed.

Lemma wrun_removes mp ops : forall s c,
  (forall q, destination s = Some q -> In q c) -> removes_created c (wrun mp s ops).
Proof.
  induction ops as [|o r IH]; intros s c D; [exact I|].
  rewrite wrun_cons. apply rc_app.
  - destruct o as [e|ok| | |]; cbn [wstep].
    + destruct mp as [p|]; [|exact I].
      destruct (parent_comps (components p)); destruct (parent_is_dir e), (mkdir_all_ok e), (create_ok e);
        cbn; destruct (writer s); cbn; auto.
    + destruct (writer s); cbn; auto.
    + destruct (writer s); cbn; auto.
    + cbn [fst snd]. destruct (writer s); cbn; destruct (destination s) as [q|] eqn:E; cbn; auto.
    + cbn [fst snd]. destruct (writer s); cbn; destruct (destination s) as [q|] eqn:E; cbn; auto.
  - apply IH. intros q Hq. rewrite in_app_iff.
    destruct o as [e|ok| | |]; cbn [wstep] in *.
    + destruct mp as [p|]; [|right; auto].
      destruct (parent_comps (components p)); destruct (parent_is_dir e), (mkdir_all_ok e), (create_ok e);
        cbn [fst snd destination] in *; try (right; auto; fail);
        injection Hq as <-; left; destruct (writer s); cbn; auto.
    + destruct (writer s); cbn in *; auto.
    + destruct (writer s); cbn in *; try discriminate; auto.
    + cbn in Hq. discriminate.
    + cbn in Hq. discriminate.
Qed.

Lemma rc_split c l1 p l2 : removes_created c (l1 ++ ERemove p :: l2) -> In p c \/ In (ECreate p) l1.
Proof.
  revert c. induction l1 as [|e r IH]; intros c H.
  - cbn in H. left. tauto.
  - destruct e; cbn in H.
    + destruct (IH _ H); [left; assumption|right; right; assumption].
    + destruct (IH _ H) as [[->|I]|I]; [right; left; reflexivity|left; assumption|right; right; assumption].
    + destruct (IH _ H); [left; assumption|right; right; assumption].
    + destruct H as [_ H]. destruct (IH _ H); [left; assumption|right; right; assumption].
Qed.

Lemma remove_only_created_proof mp ops l1 p l2 :
  wrun mp winit ops = l1 ++ ERemove p :: l2 -> In (ECreate p) l1.
Proof.
  intros E. pose proof (wrun_removes mp ops winit [] ltac:(cbn; discriminate)) as H.
  rewrite E in H. apply rc_split in H. destruct H as [[]|H]. assumption.
Qed.

(* ---------------------------------------------------------------- predicted changes and the executable predicates *)
Lemma strict_prefixb_app d names : names <> [] -> strict_prefixb d (d ++ names) = true.
Proof.
  intros NE. induction d as [|x d IH]; cbn.
  - destruct names; [contradiction|reflexivity].
  - rewrite str_eqb_refl. exact IH.
Qed.

Lemma strictly_inside_prefixb d p : strictly_inside d p -> strict_prefixb d p = true.
Proof. intros (names & NE & _ & ->). apply strict_prefixb_app. assumption. Qed.

Definition fevents (cwd : list str) (efs : list effect) := flat_map (file_event cwd) efs.

Lemma file_changes_paths pre evs c : In c (file_changes pre evs) -> exists b, In (b, snd c) evs.
Proof.
  unfold file_changes. rewrite in_flat_map. intros ([b r] & Hev & Hc). cbn [snd] in Hc.
  destruct (last_event r evs None) as [[|]|]; cbn in Hc.
  - destruct Hc as [<-|[]]. exists b. assumption.
  - destruct (pmem r pre); [|destruct Hc]. destruct Hc as [<-|[]]. exists b. assumption.
  - destruct Hc.
Qed.

Lemma fevents_paths cwd efs b r : In (b, r) (fevents cwd efs) ->
  exists p, (In (ECreate p) efs \/ In (ERemove p) efs) /\ r = walk cwd (components p).
Proof.
  unfold fevents. rewrite in_flat_map. intros (e & He & H).
  destruct e as [d|p|p|p]; cbn in H; try (destruct H; fail);
    destruct H as [[= <- <-]|[]]; exists p; auto.
Qed.

Lemma predict_confined cwd destr pre_dirs pre_files efs :
  Forall (effect_confined cwd destr pre_dirs) efs ->
  forall c, In c (predict cwd pre_dirs pre_files efs) -> strictly_inside destr (snd c).
Proof.
  intros F c H. rewrite Forall_forall in F. unfold predict in H. apply in_app_or in H. destruct H as [H|H].
  - apply in_flat_map in H. destruct H as (e & He & H). specialize (F e He).
    destruct e as [d|p|p|p]; cbn in H; try (destruct H; fail).
    apply in_flat_map in H. destruct H as (q & Hq & H).
    destruct (pmem (walk cwd q) pre_dirs) eqn:Pm; [destruct H|]. destruct H as [<-|[]].
    cbn [snd]. apply F; assumption.
  - apply file_changes_paths in H. destruct H as (b & H). apply fevents_paths in H.
    destruct H as (p & [H|H] & ->); specialize (F _ H); exact F.
Qed.

Lemma spec_confined_holds_proof cwd pre_dirs pre_files dest loc u ops :
  pmem cwd pre_dirs = true -> dest_exists cwd dest pre_dirs = true ->
  P_C05_confined (walk cwd (components dest))
    (predict cwd pre_dirs pre_files (wrun (map_path dest loc u) winit ops)) = true.
Proof.
  intros Hc Hd. unfold P_C05_confined. apply forallb_forall. intros c Hin.
  apply strictly_inside_prefixb. eapply predict_confined; [|eassumption].
  apply writer_confined_proof; assumption.
Qed.

Lemma wrun_app mp a : forall s b, wrun mp s (a ++ b) = wrun mp s a ++ wrun mp (wfinal mp s a) b.
Proof.
  induction a as [|o r IH]; intros s b; [reflexivity|].
  cbn [app]. rewrite !wrun_cons, wfinal_cons, IH, app_assoc. reflexivity.
Qed.

Lemma wrun_writes cwd mp w : forall s, forallb is_write w = true ->
  wfinal mp s w = s /\ fevents cwd (wrun mp s w) = [] /\
  forall pd, flat_map (new_dirs cwd pd) (wrun mp s w) = [].
Proof.
  induction w as [|o r IH]; intros s H; [repeat split|].
  cbn in H. apply andb_true_iff in H. destruct H as [Ho Hr].
  destruct o; try discriminate. rewrite wrun_cons, wfinal_cons. cbn [wstep].
  destruct (writer s) as [q|]; cbn [fst snd]; destruct (IH s Hr) as (A & B & C);
    unfold fevents in *; repeat split; try assumption;
    try (cbn; assumption); try (intros pd; cbn; apply C).
Qed.

Lemma fevents_app cwd a b : fevents cwd (a ++ b) = fevents cwd a ++ fevents cwd b.
Proof. apply flat_map_app. Qed.

Lemma protocol_shape ops : protocol_ok ops = true ->
  exists e w t, ops = Open e :: w ++ [t] /\ forallb is_write w = true /\ is_terminal t = true.
Proof.
  unfold protocol_ok. destruct ops as [|[e|ok| | |] r]; try discriminate.
  destruct (rev r) as [|t w'] eqn:E; [discriminate|]. rewrite andb_true_iff. intros [T W].
  exists e, (rev w'), t. repeat split; try assumption.
  - f_equal. rewrite <- (rev_involutive r), E. reflexivity.
  - rewrite forallb_forall in *. intros x Hx. apply W. apply in_rev. assumption.
Qed.

Lemma last_opt_app_one {A} (l : list A) x : last_opt (l ++ [x]) = Some x.
Proof.
  induction l as [|y l IH]; [reflexivity|]. cbn [app]. destruct l; [reflexivity|]. exact IH.
Qed.

(* the file events of a protocol-conforming call sequence *)
Lemma protocol_events cwd mp ops : protocol_ok ops = true ->
  (completes mp ops = true /\
     exists p, mp = Some p /\ fevents cwd (wrun mp winit ops) = [(true, walk cwd (components p))])
  \/ (completes mp ops = false /\
      (fevents cwd (wrun mp winit ops) = [] \/
       exists r, fevents cwd (wrun mp winit ops) = [(true, r); (false, r)])).
Proof.
  intros P. destruct (protocol_shape _ P) as (e & w & t & -> & W & T).
  unfold completes. rewrite last_opt_app_one. rewrite wrun_cons, wrun_app, !fevents_app.
  set (st := wstep mp winit (Open e)).
  assert (Hopen :
    (snd st = RErr /\ fst (fst st) = winit /\ fevents cwd (snd (fst st)) = []) \/
    (snd st = ROk /\ exists p, mp = Some p /\ fst (fst st) = {| destination := Some p; writer := Some p |} /\
                               fevents cwd (snd (fst st)) = [(true, walk cwd (components p))])).
  { subst st. cbn [wstep]. destruct mp as [p|]; [|left; auto].
    destruct (parent_comps (components p)); destruct (parent_is_dir e), (mkdir_all_ok e), (create_ok e);
      cbn [fst snd winit writer flush_of app]; try (left; repeat split; reflexivity);
      right; (split; [reflexivity|]); exists p; repeat split; reflexivity. }
  destruct st as [[s1 ef] x]. cbn [fst snd] in *.
  destruct (wrun_writes cwd mp w s1 W) as (Fw & Ew & _). rewrite Fw, Ew. cbn [app].
  destruct Hopen as [(-> & -> & ->)|(-> & p & -> & -> & ->)].
  - right. split; [reflexivity|]. left.
    destruct t; try discriminate; reflexivity.
  - destruct t; try discriminate.
    + left. split; [reflexivity|]. exists p. split; reflexivity.
    + right. split; [reflexivity|]. right. eexists. reflexivity.
    + right. split; [reflexivity|]. right. eexists. reflexivity.
Qed.

Lemma path_eqb_refl r : path_eqb r r = true.
Proof. apply path_eqb_eq. reflexivity. Qed.

Lemma new_dirs_kind cwd pd efs c : In c (flat_map (new_dirs cwd pd) efs) -> fst c = 0.
Proof.
  rewrite in_flat_map. intros (e & _ & H). destruct e as [d|p|p|p]; cbn in H; try (destruct H; fail).
  apply in_flat_map in H. destruct H as (q & _ & H).
  destruct (pmem (walk cwd q) pd); [destruct H|]. destruct H as [<-|[]]. reflexivity.
Qed.

Lemma spec_complete_holds_proof cwd pre_dirs pre_files dest loc u ops :
  protocol_ok ops = true ->
  P_C05_complete_stored (walk cwd (components dest)) (completes (map_path dest loc u) ops)
    (predict cwd pre_dirs pre_files (wrun (map_path dest loc u) winit ops)) = true.
Proof.
  intros P. unfold P_C05_complete_stored.
  destruct (protocol_events cwd (map_path dest loc u) ops P) as [(-> & p & M & E)|(-> & _)]; [|reflexivity].
  unfold predict. fold (fevents cwd (wrun (map_path dest loc u) winit ops)). rewrite E.
  rewrite existsb_app. apply orb_true_iff. right.
  unfold file_changes. cbn [flat_map snd last_event]. rewrite path_eqb_refl. cbn [app existsb fst snd].
  rewrite (strictly_inside_prefixb _ _ (map_path_walk_proof cwd _ _ _ _ M)). reflexivity.
Qed.

Lemma spec_failed_holds_proof cwd pre_dirs pre_files mp ops :
  protocol_ok ops = true ->
  P_C05_failed_leaves_no_file (completes mp ops) (predict cwd pre_dirs pre_files (wrun mp winit ops)) = true.
Proof.
  intros P. unfold P_C05_failed_leaves_no_file.
  destruct (protocol_events cwd mp ops P) as [(-> & _)|(-> & E)]; [reflexivity|].
  cbn [orb]. apply forallb_forall. intros c Hc. unfold predict in Hc. apply in_app_or in Hc.
  destruct Hc as [Hc|Hc].
  - apply new_dirs_kind in Hc. rewrite Hc. reflexivity.
  - fold (fevents cwd (wrun mp winit ops)) in Hc. destruct E as [E|(r & E)]; rewrite E in Hc.
    + destruct Hc.
    + unfold file_changes in Hc. cbn [flat_map snd last_event] in Hc. rewrite !path_eqb_refl in Hc.
      destruct (pmem r pre_files); cbn in Hc; [|destruct Hc].
      destruct Hc as [<-|[<-|[]]]; reflexivity.
Qed.

(* ---------------------------------------------------------------- notation for examples only *)
From Coq Require Import String Ascii.
Definition S_ (x : string) : str := map N_of_ascii (list_ascii_of_string x).
Definition env_ok : fsenv := {| parent_is_dir := false; mkdir_all_ok := true; create_ok := true |}.
Local Open Scope string_scope.
Definition dest0 : str := S_ "/o1/o2/dest".
Definition pre_dirs0 : list (list str) := [[]; [S_ "o1"]; [S_ "o1"; S_ "o2"]; [S_ "o1"; S_ "o2"; S_ "dest"]].

(* D11: the mapping as found does not satisfy the statement *)
Lemma unfixed_refuted_proof : ~ fs_confined_statement map_path_unfixed.
Proof.
  intros H. specialize (H [] dest0 (S_ "//abs/x") UrlRelativeWithoutBase (S_ "/abs/x") eq_refl).
  destruct H as (names & _ & _ & E). vm_compute in E. discriminate.
Qed.
