From FluteV Require Import Model.ObjRecv.
From Coq Require Import Lia.
Open Scope N_scope.

(* D48: the step of or_attach right after init_writer - an empty object that has its OTI and its
   writer and is still receiving is completed at once *)
Definition d48_step (o : objrecv) (c : ctx) : objrecv * ctx :=
  match r_tlen o, r_oti o, r_state o, r_writer o with
  | Some 0, Some _, Receiving, Some _ => complete o c
  | _, _, _, _ => (o, c)
  end.

Lemma d48_step_cases o c : d48_step o c = (o, c) \/ d48_step o c = complete o c.
Proof.
  unfold d48_step. destruct (r_tlen o) as [[|l]|]; auto. destruct (r_oti o); auto.
  destruct (r_state o); auto. destruct (r_writer o); auto.
Qed.

(* when it fires *)
Lemma d48_step_fires o c :
  d48_step o c = complete o c ->
  d48_step o c = (o, c) \/
  (r_tlen o = Some 0 /\ (exists x, r_oti o = Some x) /\ r_state o = Receiving /\ exists w, r_writer o = Some w).
Proof.
  unfold d48_step. destruct (r_tlen o) as [[|l]|]; auto. destruct (r_oti o); auto.
  destruct (r_state o); auto. destruct (r_writer o); auto. intros _. right. eauto 10.
Qed.

Lemma d48_step_nonempty o c l : r_tlen o = Some l -> l <> 0 -> d48_step o c = (o, c).
Proof. unfold d48_step. intros -> H. destruct l; [congruence|reflexivity]. Qed.

Lemma d48_step_not_receiving o c : r_state o <> Receiving -> d48_step o c = (o, c).
Proof.
  unfold d48_step. intros H. destruct (r_tlen o) as [[|l]|]; auto. destruct (r_oti o); auto.
  destruct (r_state o); auto. congruence.
Qed.

Lemma d48_step_no_writer o c : r_writer o = None -> d48_step o c = (o, c).
Proof.
  unfold d48_step. intros H. destruct (r_tlen o) as [[|l]|]; auto. destruct (r_oti o); auto.
  destruct (r_state o); auto. rewrite H. reflexivity.
Qed.

Lemma d48_step_no_oti o c : r_oti o = None -> d48_step o c = (o, c).
Proof. unfold d48_step. intros H. destruct (r_tlen o) as [[|l]|]; auto. rewrite H. reflexivity. Qed.


(* the residue of the D48 test once the record projections have been computed *)
Lemma Nmatch_pos {A} (l : N) (a b : A) : l <> 0 -> match l with 0 => a | N.pos _ => b end = b.
Proof. destruct l; [congruence|reflexivity]. Qed.

(* D48 test on a state whose fields are known *)
Ltac d48_skip HL :=
  match type of HL with
  | ?L <> 0 =>
    match goal with
    | |- context [match L with 0 => ?a | N.pos _ => ?b end] =>
      rewrite (@Nmatch_pos _ L a b HL)
    end
  end.
