(* C04, parse side: the checked model of the repaired parser (Model/AlcFixed.v) returns Ok or Err on
   every byte string - no index, slice, subtraction, division, remainder or shift is ever out of range -
   and it agrees with the C06 model (Model/Lct.v, Model/Alc.v) wherever that one does not panic. *)
From FluteV Require Import Model.AlcFixed.
From Coq Require Import Lia.
Open Scope N_scope.

Arguments N.add : simpl never. Arguments N.mul : simpl never. Arguments N.sub : simpl never.
Arguments N.div : simpl never. Arguments N.modulo : simpl never. Arguments N.pow : simpl never.
Arguments N.eqb : simpl never. Arguments N.ltb : simpl never. Arguments N.leb : simpl never.
Arguments N.shiftr : simpl never. Arguments N.shiftl : simpl never. Arguments N.land : simpl never.
Arguments N.lor : simpl never.
Arguments nth_error : simpl never. Arguments firstn : simpl never. Arguments skipn : simpl never.
Arguments be_decode : simpl never.

(* ---------- the checked primitives succeed inside their range ---------- *)
Lemma lenN_nat (l : list N) : N.to_nat (lenN l) = length l.
Proof. unfold lenN. apply Nnat.Nat2N.id. Qed.

Lemma cidx_ok l i : (i < length l)%nat -> exists v, cidx l i = Ok v.
Proof.
  intros H. unfold cidx. destruct (nth_error l i) eqn:E; [eauto|].
  apply nth_error_None in E. lia.
Qed.

Lemma cslice_ok l f t : (f <= t)%nat -> (t <= length l)%nat -> cslice l f t = Ok (slice l f t).
Proof.
  intros A B. unfold cslice.
  destruct (Nat.ltb_spec t f); [lia|]. destruct (Nat.ltb_spec (length l) t); [lia|]. reflexivity.
Qed.

Lemma slice_length l f t : (f <= t)%nat -> (t <= length l)%nat -> length (slice l f t) = (t - f)%nat.
Proof. intros A B. unfold slice. rewrite firstn_length, skipn_length. lia. Qed.

Lemma cbe_ok l f t : (f <= t)%nat -> (t <= length l)%nat -> cbe l f t = Ok (be_decode (slice l f t)).
Proof. intros A B. unfold cbe. rewrite cslice_ok by assumption. reflexivity. Qed.

Lemma land1 x : N.land x 1 = 0 \/ N.land x 1 = 1.
Proof.
  assert (E : N.land x 1 = x mod 2) by exact (N.land_ones x 1).
  pose proof (N.mod_upper_bound x 2). lia.
Qed.

(* ---------- lct.rs ---------- *)
Definition lct_bounds (data : list N) (h : lct_header) : Prop :=
  lh_ext_offset h <= lh_len h /\ lh_len h <= lenN data.

Lemma parse_lct_header_fixed_spec data :
  match parse_lct_header_fixed data with
  | Ok h => lct_bounds data h
  | Err => True
  | _ => False
  end.
Proof.
  unfold parse_lct_header_fixed.
  destruct (nth_error data 2) as [v|]; [|exact I].
  destruct (N.ltb_spec (lenN data) (v * 4)) as [|Hlen]; [exact I|].
  destruct (N.ltb_spec (lenN data) 4) as [|H4]; [exact I|].
  assert (L4 : (4 <= length data)%nat) by (unfold lenN in H4; lia).
  destruct (cidx_ok data 3) as [cp ->]; [lia|].
  destruct (cidx_ok data 0) as [f1 ->]; [lia|].
  destruct (cidx_ok data 1) as [f2 ->]; [lia|].
  cbn [rbind].
  destruct (negb (N.shiftr f1 4 =? 1) && negb (N.shiftr f1 4 =? 2)); [exact I|].
  set (s := N.land (N.shiftr f2 7) 1). set (o := N.land (N.shiftr f2 5) 3).
  set (h := N.land (N.shiftr f2 4) 1). set (c := N.land (N.shiftr f1 2) 3).
  set (cci_len := (c + 1) * 4). set (tsi_len := s * 4 + h * 2). set (toi_len := o * 4 + h * 2).
  destruct (N.ltb_spec (lenN data) (4 + cci_len + tsi_len + toi_len)) as [|Ht]; [exact I|].
  destruct (N.ltb_spec 16 cci_len) as [|Hc]; [exact I|].
  destruct (N.ltb_spec 8 tsi_len) as [|Hs]; [exact I|].
  destruct (N.ltb_spec 16 toi_len) as [|Ho]; [exact I|].
  cbn [orb].
  destruct (N.ltb_spec (v * 4) (4 + cci_len + tsi_len + toi_len)) as [|Hl]; [exact I|].
  unfold csubN.
  destruct (N.ltb_spec 16 cci_len); [lia|]. destruct (N.ltb_spec 8 tsi_len); [lia|].
  destruct (N.ltb_spec 16 toi_len); [lia|]. cbn [rbind].
  assert (LD : N.of_nat (length data) = lenN data) by reflexivity.
  rewrite cslice_ok by lia. cbn [rbind].
  rewrite cslice_ok by lia. cbn [rbind].
  rewrite cslice_ok by lia. cbn [rbind].
  unfold lenN at 1 2 3. rewrite !slice_length by lia.
  replace (N.of_nat (N.to_nat (4 + cci_len) - 4)) with cci_len by lia.
  replace (N.of_nat (N.to_nat (4 + cci_len + tsi_len) - N.to_nat (4 + cci_len))) with tsi_len by lia.
  replace (N.of_nat (N.to_nat (4 + cci_len + tsi_len + toi_len) - N.to_nat (4 + cci_len + tsi_len))) with toi_len by lia.
  destruct (N.eqb_spec cci_len (16 - (16 - cci_len))); [|lia].
  destruct (N.eqb_spec tsi_len (8 - (8 - tsi_len))); [|lia].
  destruct (N.eqb_spec toi_len (16 - (16 - toi_len))); [|lia].
  cbn [negb orb]. split; cbn [lh_ext_offset lh_len]; lia.
Qed.

Theorem parse_lct_header_fixed_total data : returned (parse_lct_header_fixed data) = true.
Proof. pose proof (parse_lct_header_fixed_spec data) as H. destruct (parse_lct_header_fixed data); tauto. Qed.

(* a datagram that cannot hold the 32-bit LCT word and a 32-bit CCI is rejected *)
Lemma parse_lct_header_fixed_short data : lenN data < 8 -> parse_lct_header_fixed data = Err.
Proof.
  intros Hs. pose proof (parse_lct_header_fixed_spec data) as T. unfold parse_lct_header_fixed in *.
  destruct (nth_error data 2) as [v|]; [|reflexivity].
  destruct (lenN data <? v * 4); [reflexivity|].
  destruct (lenN data <? 4); [reflexivity|].
  destruct (cidx data 3) as [cp| | |]; cbn [rbind] in *; try tauto.
  destruct (cidx data 0) as [f1| | |]; cbn [rbind] in *; try tauto.
  destruct (cidx data 1) as [f2| | |]; cbn [rbind] in *; try tauto.
  destruct (negb (N.shiftr f1 4 =? 1) && negb (N.shiftr f1 4 =? 2)); [reflexivity|].
  destruct (N.ltb_spec (lenN data) (4 + (N.land (N.shiftr f1 2) 3 + 1) * 4 + (N.land (N.shiftr f2 7) 1 * 4 + N.land (N.shiftr f2 4) 1 * 2) +
                                    (N.land (N.shiftr f2 5) 3 * 4 + N.land (N.shiftr f2 4) 1 * 2))) as [|Ht]; [reflexivity|lia].
Qed.

(* ---------- lct.rs get_ext ---------- *)
Definition ext_result_ok (r : res (option (list N))) : Prop :=
  match r with
  | Ok None => True
  | Ok (Some x) => (4 <= length x)%nat
  | Err => True
  | _ => False
  end.

Lemma get_ext_walk_ok ext : forall fuel e, (length e < fuel)%nat -> ext_result_ok (get_ext_walk hel_bytes fuel e ext).
Proof.
  induction fuel as [|fuel IH]; intros e Hf; [lia|].
  cbn [get_ext_walk].
  destruct e as [|het [|b1 [|b2 [|b3 r]]]]; try exact I.
  set (e := het :: b1 :: b2 :: b3 :: r) in *.
  set (hel := if 128 <=? het then 4 else hel_bytes b1).
  destruct (N.eqb_spec hel 0) as [|Hz]; [exact I|].
  destruct (N.ltb_spec (lenN e) hel) as [|Hl]; [exact I|]. cbn [orb].
  assert (H4 : 4 <= hel).
  { unfold hel, hel_bytes in *. destruct (128 <=? het); lia. }
  assert (Hn : (N.to_nat hel <= length e)%nat) by (unfold lenN in Hl; lia).
  destruct (het =? ext).
  - cbn [ext_result_ok]. rewrite firstn_length. lia.
  - apply IH. rewrite skipn_length. lia.
Qed.

Lemma get_ext_ok data h ext : lct_bounds data h -> ext_result_ok (get_ext data h ext).
Proof.
  intros [A B]. unfold get_ext, get_ext_gen.
  destruct (N.ltb_spec (lh_len h) (lh_ext_offset h)); [lia|].
  destruct (N.ltb_spec (lenN data) (lh_len h)); [lia|]. cbn [orb].
  apply get_ext_walk_ok. lia.
Qed.

(* ---------- alc.rs extensions ---------- *)
Lemma parse_cenc_total ext : returned (parse_cenc ext) = true.
Proof.
  unfold parse_cenc. destruct (Nat.eqb_spec (length ext) 4) as [E|]; [|reflexivity]. cbn [negb].
  destruct (nth_error ext 1) eqn:N1.
  - destruct (n <=? 3); reflexivity.
  - apply nth_error_None in N1. lia.
Qed.

Lemma parse_ext_fdt_c_total ext : returned (parse_ext_fdt_c ext) = true.
Proof.
  unfold parse_ext_fdt_c. destruct (Nat.eqb_spec (length ext) 4) as [E|]; [|reflexivity]. cbn [negb].
  rewrite cbe_ok by lia. reflexivity.
Qed.

Lemma ntp_to_system_time_total x : returned (ntp_to_system_time x) = true.
Proof. unfold ntp_to_system_time. destruct (N.shiftr x 32 <? NTP_UNIX_OFFSET); reflexivity. Qed.

Lemma parse_sct_c_total ext : (4 <= length ext)%nat -> returned (parse_sct_c ext) = true.
Proof.
  intros H4. unfold parse_sct_c.
  destruct (N.ltb_spec (lenN ext) 4) as [Hc|_]; [unfold lenN in Hc; lia|].
  destruct (cidx_ok ext 2) as [u ->]; [lia|]. cbn [rbind].
  set (hi := N.land (N.shiftr u 7) 1). set (lo := N.land (N.shiftr u 6) 1).
  set (ert := N.land (N.shiftr u 5) 1). set (slc := N.land (N.shiftr u 4) 1).
  destruct (N.eqb_spec (lenN ext) ((hi + lo + ert + slc + 1) * 4)) as [El|]; [|reflexivity]. cbn [negb].
  destruct (N.eqb_spec hi 0) as [|Hh]; [reflexivity|].
  assert (hi = 1) by (destruct (land1 (N.shiftr u 7)); unfold hi in *; lia).
  assert (L8 : (8 <= length ext)%nat) by (unfold lenN in El; lia).
  rewrite cbe_ok by lia. cbn [rbind].
  destruct (N.eqb_spec lo 1) as [Hl|].
  - assert (L12 : (12 <= length ext)%nat) by (unfold lenN in El; lia).
    rewrite cbe_ok by lia. cbn [rbind].
    match goal with |- context [ntp_to_system_time ?x] =>
      pose proof (ntp_to_system_time_total x) as T; destruct (ntp_to_system_time x) end; try discriminate; reflexivity.
  - cbn [rbind].
    match goal with |- context [ntp_to_system_time ?x] =>
      pose proof (ntp_to_system_time_total x) as T; destruct (ntp_to_system_time x) end; try discriminate; reflexivity.
Qed.

(* ---------- alccodec get_fti ---------- *)
Ltac in16 H := repeat (first [rewrite cbe_ok by lia | match goal with |- context [cidx ?l ?i] =>
                   let v := fresh "v" in destruct (cidx_ok l i) as [v ->]; [lia|] end]; cbn [rbind]).

Lemma parse_fti_nocode_c_total fti : returned (parse_fti_nocode_c fti) = true.
Proof.
  unfold parse_fti_nocode_c. destruct (Nat.eqb_spec (length fti) 16) as [E|]; [|reflexivity]. cbn [negb].
  destruct (cidx_ok fti 1) as [b1 ->]; [lia|]. cbn [rbind].
  destruct (negb (b1 =? 4)); [reflexivity|]. in16 E. reflexivity.
Qed.

Lemma parse_fti_rs28_fixed_total fti : returned (parse_fti_rs28_fixed fti) = true.
Proof.
  unfold parse_fti_rs28_fixed. destruct (Nat.eqb_spec (length fti) 12) as [E|]; [|reflexivity]. cbn [negb].
  destruct (cidx_ok fti 1) as [b1 ->]; [lia|]. cbn [rbind].
  destruct (negb (b1 =? 3)); [reflexivity|].
  rewrite !cbe_ok by lia. cbn [rbind].
  destruct (cidx_ok fti 10) as [b ->]; [lia|]. destruct (cidx_ok fti 11) as [n ->]; [lia|]. cbn [rbind].
  unfold csubN. destruct (n <? b); reflexivity.
Qed.

Lemma parse_fti_rs28us_c_total fti : returned (parse_fti_rs28us_c fti) = true.
Proof.
  unfold parse_fti_rs28us_c. destruct (Nat.eqb_spec (length fti) 16) as [E|]; [|reflexivity]. cbn [negb].
  destruct (cidx_ok fti 1) as [b1 ->]; [lia|]. cbn [rbind].
  destruct (negb (b1 =? 4)); [reflexivity|]. in16 E. reflexivity.
Qed.

Lemma parse_fti_rs2m_c_total fti : returned (parse_fti_rs2m_c fti) = true.
Proof.
  unfold parse_fti_rs2m_c. destruct (Nat.eqb_spec (length fti) 16) as [E|]; [|reflexivity]. cbn [negb].
  destruct (cidx_ok fti 1) as [b1 ->]; [lia|]. cbn [rbind].
  destruct (negb (b1 =? 4)); [reflexivity|]. in16 E. reflexivity.
Qed.

Lemma raptor_tail_total (mk : N -> N -> res (oti * N)) tl t z al :
  (forall b, returned (mk b tl) = true) ->
  returned (if t =? 0 then Err else if z =? 0 then Err else if al =? 0 then Err
            else r <-- cmodN t al ;;
                 if negb (r =? 0) then Err
                 else block_size <-- cdiv_ceil tl z ;; b <-- cdiv_ceil block_size t ;; mk b tl) = true.
Proof.
  intros Hm. destruct (N.eqb_spec t 0); [reflexivity|]. destruct (N.eqb_spec z 0); [reflexivity|].
  destruct (N.eqb_spec al 0); [reflexivity|].
  unfold cmodN, cdiv_ceil.
  destruct (N.eqb_spec al 0); [lia|]. cbn [rbind].
  destruct (negb (t mod al =? 0)); [reflexivity|].
  destruct (N.eqb_spec z 0); [lia|]. cbn [rbind].
  destruct (N.eqb_spec t 0); [lia|]. cbn [rbind]. apply Hm.
Qed.

Lemma parse_fti_raptorq_c_total fti : returned (parse_fti_raptorq_c fti) = true.
Proof.
  unfold parse_fti_raptorq_c. destruct (Nat.eqb_spec (length fti) 16) as [E|]; [|reflexivity]. cbn [negb].
  in16 E.
  match goal with |- context [SSRaptorQ ?z ?n ?al] =>
    apply (raptor_tail_total (fun b tl => Ok ({| o_fec := RaptorQ; o_inst := 0; o_B := b mod U32; o_E := _; o_parity := 0;
                                                  o_ss := Some (SSRaptorQ z n al); o_inband_fti := true |}, tl))) end.
  reflexivity.
Qed.

Lemma parse_fti_raptor_c_total fti : returned (parse_fti_raptor_c fti) = true.
Proof.
  unfold parse_fti_raptor_c. destruct (Nat.eqb_spec (length fti) 16) as [E|]; [|reflexivity]. cbn [negb].
  in16 E.
  match goal with |- context [SSRaptor ?z ?n ?al] =>
    apply (raptor_tail_total (fun b tl => Ok ({| o_fec := Raptor; o_inst := 0; o_B := b mod U32; o_E := _; o_parity := 0;
                                                  o_ss := Some (SSRaptor z n al); o_inband_fti := true |}, tl))) end.
  reflexivity.
Qed.

Lemma parse_fti_fixed_total f fti : returned (parse_fti_fixed f fti) = true.
Proof.
  destruct f; cbn [parse_fti_fixed];
    auto using parse_fti_nocode_c_total, parse_fti_rs28_fixed_total, parse_fti_rs28us_c_total,
               parse_fti_rs2m_c_total, parse_fti_raptorq_c_total, parse_fti_raptor_c_total.
Qed.

Lemma get_fti_fixed_total f data h : lct_bounds data h -> returned (get_fti_fixed f data h) = true.
Proof.
  intros Hb. unfold get_fti_fixed. pose proof (get_ext_ok data h 64 Hb) as G.
  destruct (get_ext data h 64) as [[fti|]| | |]; cbn [rbind ext_result_ok] in *; try tauto; try reflexivity.
  pose proof (parse_fti_fixed_total f fti) as T. destruct (parse_fti_fixed f fti); cbn [rbind]; try discriminate; reflexivity.
Qed.

(* ---------- FEC payload ids ---------- *)
Lemma get_fec_payload_id_fixed_total o pid : returned (get_fec_payload_id_fixed o pid) = true.
Proof.
  unfold get_fec_payload_id_fixed.
  destruct (o_fec o); try (destruct (negb (length pid =? 4)%nat); reflexivity);
    try (destruct (negb (length pid =? 8)%nat); reflexivity).
  destruct (negb (length pid =? 4)%nat); [reflexivity|].
  destruct (N.leb_spec 32 (rs2m_m o)) as [|Hm]; [reflexivity|].
  unfold csubN.
  assert (P : 2 ^ rs2m_m o < U32).
  { unfold U32. change 4294967296 with (2 ^ 32). apply N.pow_lt_mono_r; lia. }
  rewrite N.mod_small by exact P.
  assert (Q : 2 ^ rs2m_m o <> 0) by (apply N.pow_nonzero; lia).
  destruct (N.ltb_spec (2 ^ rs2m_m o) 1); [lia|]. reflexivity.
Qed.

(* ---------- alc.rs parse_alc_pkt, get_sender_current_time, parse_payload_id ---------- *)
Definition alc_bounds (data : list N) (a : alc_pkt) : Prop :=
  lct_bounds data (a_lct a) /\ a_alc_off a <= a_payload_off a /\ a_payload_off a <= lenN data.

Lemma parse_alc_pkt_fixed_spec data :
  match parse_alc_pkt_fixed data with
  | Ok a => alc_bounds data a
  | Err => True
  | _ => False
  end.
Proof.
  unfold parse_alc_pkt_fixed.
  pose proof (parse_lct_header_fixed_spec data) as L.
  destruct (parse_lct_header_fixed data) as [h| | |]; cbn [rbind]; try tauto.
  destruct (fec_of_code (lh_cp h)) as [fec|]; [|exact I].
  destruct (N.ltb_spec (lenN data) (pid_block_length fec + lh_len h)) as [|Hp]; [exact I|].
  pose proof (get_fti_fixed_total fec data h L) as T.
  destruct (get_fti_fixed fec data h) as [fti| | |]; cbn [rbind]; try discriminate; [|exact I].
  pose proof (get_ext_ok data h 193 L) as G1.
  destruct (get_ext data h 193) as [ce| | |]; cbn [rbind ext_result_ok] in *; try tauto.
  assert (F : match (if lh_toi h =? 0
                     then e <-- get_ext data h 192 ;; match e with Some ext => parse_ext_fdt_c ext | None => Ok None end
                     else Ok None) with Ok _ | Err => True | _ => False end).
  { destruct (lh_toi h =? 0); [|exact I].
    pose proof (get_ext_ok data h 192 L) as G2.
    destruct (get_ext data h 192) as [[x|]| | |]; cbn [rbind ext_result_ok] in *; try tauto.
    pose proof (parse_ext_fdt_c_total x) as P. destruct (parse_ext_fdt_c x); try discriminate; exact I. }
  destruct (if lh_toi h =? 0 then _ else _) as [fdt| | |]; cbn [rbind]; try tauto.
  unfold alc_bounds. cbn [a_lct a_alc_off a_payload_off]. split; [exact L|]. split; [lia|].
  destruct fec; cbn [pid_block_length] in *; lia.
Qed.

Theorem parse_alc_pkt_fixed_total data : returned (parse_alc_pkt_fixed data) = true.
Proof. pose proof (parse_alc_pkt_fixed_spec data) as H. destruct (parse_alc_pkt_fixed data); tauto. Qed.

Lemma parse_cenc_returns_true data h : parse_cenc_returns data h = true.
Proof.
  unfold parse_cenc_returns. destruct (get_ext data h 193) as [[x|]| | |]; try reflexivity.
  apply parse_cenc_total.
Qed.

Theorem get_sender_current_time_fixed_total data a :
  alc_bounds data a -> returned (get_sender_current_time_fixed data a) = true.
Proof.
  intros [L _]. unfold get_sender_current_time_fixed.
  pose proof (get_ext_ok data (a_lct a) 2 L) as G.
  destruct (get_ext data (a_lct a) 2) as [[x|]| | |]; cbn [rbind ext_result_ok] in *; try tauto; try reflexivity.
  apply parse_sct_c_total. exact G.
Qed.

Theorem parse_payload_id_fixed_total data a o :
  alc_bounds data a -> returned (parse_payload_id_fixed data a o) = true.
Proof.
  intros [_ [A B]]. unfold parse_payload_id_fixed.
  rewrite cslice_ok by (unfold lenN in B; lia). cbn [rbind]. apply get_fec_payload_id_fixed_total.
Qed.

Theorem parsed_packet_total data a :
  parse_alc_pkt_fixed data = Ok a ->
  returned (get_sender_current_time_fixed data a) = true /\
  forall o, returned (parse_payload_id_fixed data a o) = true.
Proof.
  intros H. pose proof (parse_alc_pkt_fixed_spec data) as S. rewrite H in S.
  split; [exact (get_sender_current_time_fixed_total data a S)|].
  intros o. exact (parse_payload_id_fixed_total data a o S).
Qed.

(* the three of them at once, on raw bytes: what the harness observes never carries the code 2 *)
Theorem observe_fixed_total data :
  match observe_fixed data with Obs p s i => p <> 2 /\ s <> 2 /\ i <> 2 end.
Proof.
  unfold observe_fixed. pose proof (parse_alc_pkt_fixed_spec data) as S.
  destruct (parse_alc_pkt_fixed data) as [a| | |]; try tauto.
  - rewrite parse_cenc_returns_true.
    pose proof (get_sender_current_time_fixed_total data a S) as T1.
    split; [discriminate|]. split.
    + destruct (get_sender_current_time_fixed data a); cbn in *; discriminate.
    + destruct (a_oti a) as [o|]; [|discriminate].
      pose proof (parse_payload_id_fixed_total data a o S) as T2.
      destruct (parse_payload_id_fixed data a o); cbn in *; discriminate.
  - cbn. repeat split; discriminate.
Qed.

(* a datagram of fewer than 8 bytes (the LCT word and a 32-bit CCI do not fit) is rejected *)
Theorem parse_alc_pkt_fixed_short data : lenN data < 8 -> parse_alc_pkt_fixed data = Err.
Proof. intros H. unfold parse_alc_pkt_fixed. rewrite parse_lct_header_fixed_short by exact H. reflexivity. Qed.

(* ---------- agreement with the C06 model (total slices under guards, panics only where named) ---------- *)
(* D1: the repaired header parser is the C06 one behind the length test *)
Lemma parse_lct_header_fixed_vs_c06 data :
  parse_lct_header_fixed data = if lenN data <? 4 then Err else parse_lct_header data.
Proof.
  pose proof (parse_lct_header_fixed_spec data) as T.
  unfold parse_lct_header_fixed, parse_lct_header in *.
  destruct (nth_error data 2) as [v|] eqn:E2.
  2: { destruct (N.ltb_spec (lenN data) 4); reflexivity. }
  destruct (N.ltb_spec (lenN data) (v * 4)); [destruct (lenN data <? 4); reflexivity|].
  destruct (N.ltb_spec (lenN data) 4) as [|H4]; [reflexivity|].
  assert (L4 : (4 <= length data)%nat) by (unfold lenN in H4; lia).
  unfold cidx in *.
  destruct (nth_error data 3) as [cp|] eqn:E3; [|apply nth_error_None in E3; lia].
  destruct (nth_error data 0) as [f1|] eqn:E0; [|apply nth_error_None in E0; lia].
  destruct (nth_error data 1) as [f2|] eqn:E1; [|apply nth_error_None in E1; lia].
  cbn [rbind] in *.
  destruct (negb (N.shiftr f1 4 =? 1) && negb (N.shiftr f1 4 =? 2)); [reflexivity|].
  set (s := N.land (N.shiftr f2 7) 1) in *. set (o := N.land (N.shiftr f2 5) 3) in *.
  set (h := N.land (N.shiftr f2 4) 1) in *. set (c := N.land (N.shiftr f1 2) 3) in *.
  set (cci_len := (c + 1) * 4) in *. set (tsi_len := s * 4 + h * 2) in *. set (toi_len := o * 4 + h * 2) in *.
  destruct (N.ltb_spec (lenN data) (4 + cci_len + tsi_len + toi_len)) as [|Ht]; [reflexivity|].
  destruct (N.ltb_spec 16 cci_len) as [|Hc]; [reflexivity|].
  destruct (N.ltb_spec 8 tsi_len) as [|Hs]; [reflexivity|].
  destruct (N.ltb_spec 16 toi_len) as [|Ho]; [reflexivity|].
  cbn [orb] in *.
  destruct (N.ltb_spec (v * 4) (4 + cci_len + tsi_len + toi_len)) as [|Hl]; [reflexivity|].
  unfold csubN in *.
  destruct (N.ltb_spec 16 cci_len); [lia|]. destruct (N.ltb_spec 8 tsi_len); [lia|].
  destruct (N.ltb_spec 16 toi_len); [lia|]. cbn [rbind] in *.
  assert (LD : N.of_nat (length data) = lenN data) by reflexivity.
  rewrite !cslice_ok in * by lia. cbn [rbind] in *.
  match goal with |- (if ?b then _ else _) = _ => destruct b; [contradiction|] end.
  f_equal.
  replace (16 - N.to_nat cci_len)%nat with (N.to_nat (16 - cci_len)) by lia.
  replace (8 - N.to_nat tsi_len)%nat with (N.to_nat (8 - tsi_len)) by lia.
  replace (16 - N.to_nat toi_len)%nat with (N.to_nat (16 - toi_len)) by lia.
  reflexivity.
Qed.

(* D1 on the C06 model: three bytes whose third is 0 reach data[3] *)
Example d1_witness : parse_lct_header [16; 0; 0] = Panic /\ parse_lct_header_fixed [16; 0; 0] = Err.
Proof. split; reflexivity. Qed.

(* D2: the repaired RS28 FTI parser agrees with the C06 one except on its panic *)
Lemma parse_fti_rs28_fixed_vs_c06 fti :
  parse_fti_rs28_fixed fti = match parse_fti_rs28 fti with Panic => Err | r => r end.
Proof.
  unfold parse_fti_rs28_fixed, parse_fti_rs28, byte_or0.
  destruct (Nat.eqb_spec (length fti) 12) as [E|]; [|reflexivity]. cbn [negb].
  unfold cidx.
  destruct (nth_error fti 1) as [b1|] eqn:E1; [|apply nth_error_None in E1; lia].
  rewrite (nth_error_nth _ _ 0 E1). cbn [rbind].
  destruct (negb (b1 =? 3)); [reflexivity|].
  rewrite !cbe_ok by lia. cbn [rbind].
  destruct (nth_error fti 10) as [b|] eqn:E10; [|apply nth_error_None in E10; lia].
  destruct (nth_error fti 11) as [n|] eqn:E11; [|apply nth_error_None in E11; lia].
  rewrite (nth_error_nth _ _ 0 E10), (nth_error_nth _ _ 0 E11). cbn [rbind].
  unfold csubN. destruct (n <? b); reflexivity.
Qed.

Example d2_witness :
  parse_fti_rs28 [64; 3; 0; 0; 0; 0; 0; 20; 0; 8; 6; 3] = Panic /\
  parse_fti_rs28_fixed [64; 3; 0; 0; 0; 0; 0; 20; 0; 8; 6; 3] = Err.
Proof. split; reflexivity. Qed.

(* D4: the repaired payload-id reader agrees with the C06 one except on its panic *)
Lemma get_fec_payload_id_fixed_vs_c06 o pid :
  get_fec_payload_id_fixed o pid = match get_fec_payload_id o pid with Panic => Err | r => r end.
Proof.
  unfold get_fec_payload_id_fixed, get_fec_payload_id.
  destruct (o_fec o); try (destruct (negb (length pid =? 4)%nat); reflexivity);
    try (destruct (negb (length pid =? 8)%nat); reflexivity).
  destruct (negb (length pid =? 4)%nat); [reflexivity|].
  destruct (N.leb_spec 32 (rs2m_m o)) as [|Hm]; [reflexivity|].
  unfold csubN.
  assert (P : 2 ^ rs2m_m o < U32).
  { unfold U32. change 4294967296 with (2 ^ 32). apply N.pow_lt_mono_r; lia. }
  rewrite N.mod_small by exact P.
  assert (Q : 2 ^ rs2m_m o <> 0) by (apply N.pow_nonzero; lia).
  destruct (N.ltb_spec (2 ^ rs2m_m o) 1); [lia|]. reflexivity.
Qed.

Example d4_witness :
  let o := {| o_fec := RS2m; o_inst := 0; o_B := 2; o_E := 16; o_parity := 0;
              o_ss := Some (SSReedSolomon 64 5); o_inband_fti := true |} in
  get_fec_payload_id o [0; 0; 0; 1] = Panic /\ get_fec_payload_id_fixed o [0; 0; 0; 1] = Err.
Proof. split; reflexivity. Qed.
