(* C14, promptness clause: "each due packet goes out at the first poll at or after its due time when
   nothing of higher priority is pending; degenerate inputs - an empty object, a deadline in the
   past, a zero delay - neither crash nor stall the sender".
   G1  one read: a queue that is ready (the model's own [queue_ready]) makes the read return a packet;
       an object packet then belongs to a queue of that priority or higher; with the FDT session idle
       in FullFDT mode the packet is an object packet.  A silent read means nothing was due.
       The due packet of a slot goes out within the potential [MUs] of reads at that instant.
   G2  histories: objects whose pacing tick is zero (target duration 0, deadline not after the
       transfer start) are never held back by pacing; after a silent read every object left in a
       transmission slot is paced into the future, and an eligible waiting object waits behind such
       objects only.
   Reuses the ownership invariant [Inv] (C13Full) and [QInv] (C12Quiesce). *)
From FluteV Require Import Model.SenderCtl Spec.SenderSpec Proofs.SenderProofs Proofs.C14Full Proofs.C13Full Proofs.C12Quiesce.
From Coq Require Import Lia Permutation Sorted.
Open Scope N_scope.

Arguments N.add : simpl never. Arguments N.mul : simpl never. Arguments N.sub : simpl never.
Arguments N.eqb : simpl never. Arguments N.ltb : simpl never. Arguments N.leb : simpl never.
Arguments Z.add : simpl never. Arguments Z.sub : simpl never. Arguments Z.mul : simpl never.
Arguments Z.ltb : simpl never. Arguments Z.leb : simpl never. Arguments Z.max : simpl never.

(* ============================== part 1: the invariant ============================== *)

(* the FDT session holds an encoder only together with its FDT instance *)
Definition FS2 (s : st) : Prop := ss_file (fdt_session s) = None -> ss_enc (fdt_session s) = None.

Record PInv (s : st) : Prop := mk_PInv { p_q : QInv s; p_fs : FS2 s }.

Definition divf_total (divf : Z -> N -> option Z) : Prop := forall d n, 1 <= n -> divf d n <> None.

Section Basics.
  Variable fdt_npk : N -> nat.
  Variable fdt_ok : N -> bool.
  Variable divf : Z -> N -> option Z.

  Notation srun := (session_run fdt_npk fdt_ok divf).
  Notation rqs := (read_queues fdt_npk fdt_ok divf).
  Notation sread := (sender_read fdt_npk fdt_ok divf).
  Notation runfdt := (run_fdt_session fdt_npk fdt_ok divf).
  Notation mstep := (step fdt_npk fdt_ok divf).
  Notation publ := (publish fdt_npk fdt_ok).

  Lemma srun_both now : forall fuel ss t o ss' t',
    (ss_file ss = None -> ss_enc ss = None) ->
    srun fuel ss now t = (o, ss', t') -> (ss_file ss' = None -> ss_enc ss' = None).
  Proof.
    induction fuel as [|f IH]; intros ss t o ss' t' Hb H; cbn [session_run] in H.
    { inversion H; subst. exact Hb. }
    assert (Hr : match (match ss_enc ss with None => get_next fdt_npk fdt_ok divf ss now t | Some _ => ROk _ (ss, t) end) with
                 | RPanicked _ => True
                 | ROk _ (ss1, s1) => ss_file ss1 = None -> ss_enc ss1 = None
                 end).
    { destruct (ss_enc ss); [intros Hn; specialize (Hb Hn); discriminate Hb|]. unfold get_next.
      destruct (if ss_fdt_only ss then _ else _) as [[[c|] t1]|]; cbn; auto. discriminate. }
    destruct (match ss_enc ss with None => get_next fdt_npk fdt_ok divf ss now t | Some _ => ROk _ (ss, t) end)
      as [[ss1 s1]|]; [|inversion H; subst; exact Hb].
    destruct (negb (ss_fdt_only ss1) && negb (Nat.eqb (length (fdtq s1)) 0)); [inversion H; subst; exact Hr|].
    destruct (ss_enc ss1) as [e|] eqn:He1; [|inversion H; subst; intros _; exact He1].
    destruct (ss_file ss1) as [id|] eqn:Hf1; [|specialize (Hr eq_refl); discriminate Hr].
    destruct (match t_next_ts (f_t (obj s1 id)) with Some ts => (now <? ts)%Z | None => false end);
      [inversion H; subst; intros Hn; congruence|].
    destruct (enc_read _ e) as [[cl|] e'].
    - inversion H; subst. cbn. discriminate.
    - eapply IH; [|exact H]. cbn. auto.
  Qed.

  Lemma FS2_runfdt now s o s1 : FS2 s -> runfdt now s = (o, s1) -> FS2 s1.
  Proof.
    intros F H. apply runfdt_spec in H. destruct H as (fs' & t' & H & ->).
    unfold FS2. cbn [fdt_session set_fdt_session]. eapply srun_both; [exact F|exact H].
  Qed.

  Lemma PInv_runfdt now s o s1 : PInv s -> runfdt now s = (o, s1) -> PInv s1.
  Proof.
    intros [Q F] H. split; [|eapply FS2_runfdt; eauto].
    apply (runfdt_mu fdt_npk fdt_ok divf now s o s1 Q H).
  Qed.

  Lemma PInv_queues now s o qs s2 : PInv s -> rqs [] (squeues s) now s = (o, qs, s2) -> PInv (set_squeues s2 qs).
  Proof.
    intros [Q F] H. split; [apply (queues_mu fdt_npk fdt_ok divf now s o qs s2 Q H)|].
    destruct (read_queues_path fdt_npk fdt_ok divf now _ _ _ _ _ _ (Forall_nil _) (Inv_wfq _ (q_inv _ Q)) H)
      as (_ & _ & (Lm & tm & Pm & Rm)).
    assert (St : static s2 = static s).
    { pose proof (qpath_static _ _ _ _ _ _ _ _ Pm) as Sm.
      destruct Rm as [(_ & _ & ->)|(_ & x & _ & Vx)]; [exact Sm|].
      rewrite <- Sm. eapply vstep_static; eauto. }
    unfold FS2. cbn [fdt_session set_squeues].
    replace (fdt_session s2) with (fdt_session s) by (unfold static in St; congruence). exact F.
  Qed.

  Lemma PInv_sread now s o s' : PInv s -> sread now s = (o, s') -> PInv s'.
  Proof.
    intros P H. unfold sender_read in H.
    destruct (runfdt now s) as [o1 s1] eqn:E1.
    pose proof (PInv_runfdt now s o1 s1 P E1) as P1.
    destruct o1; try (inversion H; subst; exact P1).
    destruct (rqs [] (squeues s1) now s1) as [[o2 qs] s2] eqn:E2.
    pose proof (PInv_queues now s1 o2 qs s2 P1 E2) as P2.
    destruct o2; try (inversion H; subst; exact P2).
    eapply PInv_runfdt; eauto.
  Qed.

  Lemma FS2_step s o : PInv s -> FS2 (snd (mstep s o)).
  Proof.
    intros P. pose proof (p_fs _ P) as F.
    destruct o as [od start acc|now|toi|toi ts| |now]; cbn [step].
    - destruct (negb (has_queue s (o_prio od))); [exact F|].
      destruct (complete s); [exact F|]. destruct acc; exact F.
    - destruct (publ now s) as [ok s'] eqn:E. cbn [snd].
      replace s' with (snd (publ now s)) by (rewrite E; reflexivity).
      pose proof (static_publish fdt_npk fdt_ok now s) as St. unfold static in St.
      unfold FS2. replace (fdt_session (snd (publ now s))) with (fdt_session s) by congruence. exact F.
    - destruct (is_added s toi); exact F.
    - destruct (find_file s toi) as [id|]; [|exact F]. destruct (t_transferring _); exact F.
    - exact F.
    - destruct (sread now s) as [r s'] eqn:E. cbn [snd]. apply (p_fs _ (PInv_sread now s r s' P E)).
  Qed.

  Lemma PInv_step s o :
    PInv s -> op_fresh s o = true -> op_nz o = true -> op_car o = true -> PInv (snd (mstep s o)).
  Proof.
    intros P Hf Hn Hc. split; [apply QInv_step; try assumption; apply (p_q _ P)|apply FS2_step; exact P].
  Qed.

  Lemma PInv_reach_from : forall ops s,
    PInv s -> ops_fresh fdt_npk fdt_ok divf s ops = true -> ops_nz ops = true -> ops_car ops = true ->
    PInv (snd (run_ops fdt_npk fdt_ok divf s ops)).
  Proof.
    induction ops as [|o r IH]; intros s P Hf Hn Hc; cbn [run_ops]; [exact P|].
    cbn [ops_fresh ops_nz ops_car forallb] in *.
    apply andb_true_iff in Hf. destruct Hf as [Hf1 Hf2].
    apply andb_true_iff in Hn. destruct Hn as [Hn1 Hn2].
    apply andb_true_iff in Hc. destruct Hc as [Hc1 Hc2].
    pose proof (PInv_step s o P Hf1 Hn1 Hc1) as P'.
    destruct (mstep s o) as [x s1]. cbn [snd] in *.
    specialize (IH s1 P' Hf2 Hn2 Hc2).
    destruct (run_ops fdt_npk fdt_ok divf s1 r) as [xs s2]. cbn [snd] in *. exact IH.
  Qed.

  Lemma PInv_init full dur car sid queues :
    StronglySorted N.lt (map fst queues) -> cfg_ok dur car = true -> PInv (init_st full dur car sid queues).
  Proof. intros Hs Hc. split; [apply QInv_init; assumption|]. intros _. reflexivity. Qed.

  Lemma PInv_reach full dur car sid queues ops :
    reach_ok fdt_npk fdt_ok divf full dur car sid queues ops ->
    PInv (snd (run_ops fdt_npk fdt_ok divf (init_st full dur car sid queues) ops)).
  Proof.
    intros (Hs & Hc & Hf & Hn & Hk). apply PInv_reach_from; try assumption. apply PInv_init; assumption.
  Qed.
End Basics.

(* ============================== part 2: one read, promptness ============================== *)

Section Prompt.
  Variable fdt_npk : N -> nat.
  Variable fdt_ok : N -> bool.
  Variable divf : Z -> N -> option Z.

  Notation srun := (session_run fdt_npk fdt_ok divf).
  Notation gnft := (get_next_file_transfer fdt_npk fdt_ok divf).
  Notation rrl := (rr_loop fdt_npk fdt_ok divf).
  Notation rpq := (read_priority_queue fdt_npk fdt_ok divf).
  Notation rqs := (read_queues fdt_npk fdt_ok divf).
  Notation sread := (sender_read fdt_npk fdt_ok divf).
  Notation runfdt := (run_fdt_session fdt_npk fdt_ok divf).
  Notation file_run := (file_run fdt_npk fdt_ok divf).
  Notation fresh_run := (fresh_run fdt_npk fdt_ok divf).
  Notation vstep := (vstep fdt_npk fdt_ok divf).
  Notation qpath := (qpath fdt_npk fdt_ok divf).

  (* an FDT instance is never paced *)
  Lemma fdt_not_paced now L fs t c :
    INV L fs t -> XINV fs t -> In c (fdt_ids fs t) -> paced now t c = false.
  Proof.
    intros I X Hc. pose proof (x_shape _ _ X c Hc) as Hs. pose proof (inv_obj _ _ _ I c) as U.
    unfold untimed, untimed' in U. rewrite (shp_target _ _ Hs) in U. destruct U as [U _].
    unfold paced. rewrite U. reflexivity.
  Qed.

  (* a silent run of the FDT session: no instance waits, before or after *)
  Lemma runfdt_silent now s s1 :
    PInv s -> runfdt now s = (RNothing, s1) -> fdtq s = [] /\ fdtq s1 = [].
  Proof.
    intros P H. pose proof (PInv_runfdt fdt_npk fdt_ok divf now s _ s1 P H) as P1.
    destruct P as [Q F]. destruct P1 as [Q1 F1].
    apply runfdt_spec in H. destruct H as (fs' & t' & H & ->).
    destruct (fdt_quiet fdt_npk fdt_ok divf now _ _ s fs' t' (Inv_inv _ (q_inv _ Q)) (q_x _ Q) H) as (D & Ht).
    assert (Eq : fdtq t' = fdtq s) by (destruct Ht as [->|(c & _ & ->)]; reflexivity).
    cbn [fdtq set_fdt_session]. rewrite <- Eq. assert (G : fdtq t' = []); [|split; exact G].
    set (s1 := set_fdt_session t' fs') in *.
    pose proof (Inv_inv _ (q_inv _ Q1)) as I1. pose proof (q_x _ Q1) as X1.
    change (fdt_session s1) with fs' in I1, X1. unfold FS2 in F1. change (fdt_session s1) with fs' in F1.
    unfold dstuck in D. destruct (ss_enc fs') as [e|] eqn:He.
    - destruct (ss_file fs') as [c|] eqn:Hf; [|specialize (F1 eq_refl); discriminate F1].
      exfalso. change (paced now t' c) with (paced now s1 c) in D.
      rewrite (fdt_not_paced now _ _ _ c I1 X1) in D; [discriminate|].
      unfold fdt_ids. rewrite Hf. apply in_or_app. right. left. reflexivity.
    - destruct D as [Hf [G|(_ & G & _)]]; [exfalso|exact G].
      change (cur_fdt t') with (cur_fdt s1) in G.
      destruct (cur_fdt s1) as [c|] eqn:Ec; [|discriminate].
      change (obj t' c) with (obj s1 c) in G.
      pose proof (inv_own _ _ _ I1) as O.
      assert (Hin : In c (Dq s1 ++ opt_list (ss_file fs'))).
      { apply in_or_app. left. unfold Dq. rewrite Ec. apply in_or_app. right. left. reflexivity. }
      destruct (own_fdt _ _ _ _ _ _ _ _ O c Hin) as (Hl & _ & Hn).
      destruct (own_tr _ _ _ _ _ _ _ _ O c Hl G) as [Hs|Hs].
      + apply Hn. apply in_or_app. left. exact Hs.
      + rewrite Hf in Hs. discriminate.
  Qed.

  (* all the queues silent and no FDT instance queued: no session was ready *)
  Lemma rq_silent now fs : forall todo done t qs' t',
    Forall wfq done -> Forall wfq todo -> INV (all_sessions (done ++ todo)) fs t ->
    rqs done todo now t = (RNothing, qs', t') -> fdtq t' = [] ->
    forall q, In q todo -> forall ss, In ss (q_sessions q) -> ~ Rdy now ss t (q_prio q).
  Proof.
    induction todo as [|q r IH]; intros done t qs' t' Wd Wt I H Hq' q0 Hq0; [destruct Hq0|].
    cbn [read_queues] in H.
    destruct (rpq q now t) as [[o1 q1] t1] eqn:Eq. unfold read_priority_queue in Eq.
    inversion Wt as [|? ? Wq Wr]; subst.
    rewrite all_sessions_mid in I.
    destruct (rr_loop_path fdt_npk fdt_ok divf now (all_sessions done) (all_sessions r) _ _ _ _ _ _ _ Wq Eq)
      as (W1 & P1 & L1 & (Lm & tm & Pm & Rm)).
    destruct o1; try (inversion H; fail).
    destruct Rm as [(_ & -> & ->)|(Hc & _)]; [|contradiction].
    assert (Wd' : Forall wfq (done ++ [q1])) by (apply Forall_app; split; [assumption|constructor; [assumption|constructor]]).
    assert (I1 : INV (all_sessions ((done ++ [q1]) ++ r)) fs t1).
    { rewrite <- app_assoc. cbn [app]. rewrite all_sessions_mid. eapply inv_qpath; eauto. }
    assert (Hq1 : fdtq t1 = []).
    { destruct (read_queues_path fdt_npk fdt_ok divf now _ _ _ _ _ _ Wd' Wr H) as (_ & _ & (Lm2 & tm2 & Pm2 & Rm2)).
      destruct Rm2 as [(_ & -> & ->)|(Hc & _)]; [|contradiction].
      apply (sh_fdtq _ _ _ _ (shrink_qpath fdt_npk fdt_ok divf _ _ _ _ _ _ I1 Pm2) Hq'). }
    pose proof (IH (done ++ [q1]) t1 qs' t' Wd' Wr I1 H Hq') as Hno.
    destruct Hq0 as [<-|Hq0in]; intros ss Hss Hr.
    - destruct (In_nth_error _ _ Hss) as (j & Hj).
      assert (Hjl : (j < length (q_sessions q))%nat) by (apply nth_error_Some; congruence).
      assert (Hrem : (rem (q_index q) (q_index q) (length (q_sessions q)) <= length (q_sessions q))%nat).
      { unfold rem. rewrite Nat.ltb_irrefl. destruct Wq. lia. }
      assert (Harc : in_arc (q_index q) (q_index q) j).
      { unfold in_arc. rewrite Nat.ltb_irrefl. lia. }
      apply (rr_noisy fdt_npk fdt_ok divf now (all_sessions done) (all_sessions r) fs (length (q_sessions q)) q (q_index q) t
                      RNothing q1 t1 j ss Wq (proj1 Wq) I Hq1 Hrem Harc Hj Hr Eq). reflexivity.
    - apply (Hno q0 Hq0in ss Hss).
      destruct (In_nth_error _ _ Hss) as (j & Hj).
      destruct (in_split _ _ Hq0in) as (ra & rb & ->).
      set (k := (length (all_sessions done) + (length (q_sessions q) + (length (all_sessions ra) + j)))%nat).
      assert (Hwq0 : wfq q0) by (rewrite Forall_forall in Wr; apply Wr; assumption).
      assert (Hk0 : forall X, length X = length (q_sessions q) ->
                nth_error (all_sessions done ++ X ++ all_sessions (ra ++ q0 :: rb)) k = Some ss).
      { intros X HX. unfold k. rewrite nth_error_app2 by lia.
        replace (length (all_sessions done) + (length (q_sessions q) + (length (all_sessions ra) + j)) - length (all_sessions done))%nat
          with (length X + (length (all_sessions ra) + j))%nat by lia.
        rewrite nth_error_app2 by lia.
        replace (length X + (length (all_sessions ra) + j) - length X)%nat with (length (all_sessions ra) + j)%nat by lia.
        rewrite all_sessions_mid. rewrite nth_error_app2 by lia.
        replace (length (all_sessions ra) + j - length (all_sessions ra))%nat with j by lia.
        rewrite nth_error_app1 by (apply nth_error_Some; congruence). assumption. }
      assert (Hat : RdyAt now k (all_sessions done ++ q_sessions q ++ all_sessions (ra ++ q0 :: rb)) t).
      { exists ss. split; [apply Hk0; reflexivity|]. destruct Hwq0 as [_ Hp0]. rewrite (Hp0 ss Hss). assumption. }
      destruct (rdyat_qpath fdt_npk fdt_ok divf _ _ _ _ _ _ _ I Pm Hq1 Hat) as (ss2 & Hk2 & Hr2).
      rewrite (Hk0 _ L1) in Hk2. inversion Hk2; subst ss2.
      destruct Hwq0 as [_ Hp0]. rewrite (Hp0 ss Hss) in Hr2. exact Hr2.
  Qed.

  (* the queues after a silent FDT session: a ready session of the state before is still ready *)
  Lemma ready_after_fdt now s o1 s1 q :
    Inv s -> runfdt now s = (o1, s1) -> In q (squeues s) -> queue_ready s now q = true ->
    In q (squeues s1) /\ exists ss, In ss (q_sessions q) /\ Rdy now ss s1 (q_prio q).
  Proof.
    intros IS E1 Hq Hr.
    destruct (Inv_runfdt fdt_npk fdt_ok divf now s o1 s1 IS E1) as (_ & F1 & _).
    split; [rewrite (fr_squeues _ _ _ F1); exact Hq|].
    destruct (queue_ready_Rdy s now q Hr) as (ss & Hss & HR). exists ss. split; [exact Hss|].
    eapply rdy_frame; [exact (Inv_inv _ IS)|exact F1| |exact HR].
    unfold all_sessions. apply in_flat_map. exists q. split; assumption.
  Qed.

  (* G1, first form: a ready queue makes the read return a packet *)
  Lemma ready_not_silent now s q s' :
    PInv s -> In q (squeues s) -> queue_ready s now q = true -> sread now s <> (RNothing, s').
  Proof.
    intros P Hq Hr H. unfold sender_read in H.
    destruct (runfdt now s) as [o1 s1] eqn:E1.
    pose proof (PInv_runfdt fdt_npk fdt_ok divf now s o1 s1 P E1) as P1.
    destruct (ready_after_fdt now s o1 s1 q (q_inv _ (p_q _ P)) E1 Hq Hr) as (Hq1 & ss & Hss & HR).
    destruct o1; try (inversion H; fail).
    destruct (rqs [] (squeues s1) now s1) as [[o2 qs] s2] eqn:E2.
    pose proof (PInv_queues fdt_npk fdt_ok divf now s1 o2 qs s2 P1 E2) as P2.
    destruct o2; try (inversion H; fail).
    destruct (runfdt_silent now _ s' P2 H) as (G3 & _). cbn [fdtq set_squeues] in G3.
    pose proof (q_inv _ (p_q _ P1)) as IS1.
    apply (rq_silent now (fdt_session s1) (squeues s1) [] s1 qs s2 (Forall_nil _) (Inv_wfq _ IS1) (Inv_inv _ IS1) E2 G3 q Hq1 ss Hss HR).
  Qed.

  Theorem prompt_read now s q o s' :
    PInv s -> divf_total divf -> In q (squeues s) -> queue_ready s now q = true ->
    sread now s = (o, s') ->
    is_pkt o = true
    /\ forall toi c, o = RObj toi c ->
         exists p, prio_of_toi s toi = Some p /\ p <= q_prio q
                   /\ forall q', In q' (squeues s) -> q_prio q' < p -> queue_ready s now q' = false.
  Proof.
    intros P Hd Hq Hr H.
    pose proof (read_no_panic fdt_npk fdt_ok divf now s o s' Hd (q_inv _ (p_q _ P)) H) as Np.
    destruct (read_mu fdt_npk fdt_ok divf now s o s' (p_q _ P) H) as (_ & _ & _ & Nf).
    assert (Nn : o <> RNothing) by (intros ->; exact (ready_not_silent now s q s' P Hq Hr H)).
    split; [destruct o; try reflexivity; congruence|].
    intros toi c ->.
    pose proof (priority_read fdt_npk fdt_ok divf now s _ s' (q_inv _ (p_q _ P)) H) as Pr.
    unfold P_C13_priority in Pr. destruct (prio_of_toi s toi) as [p|]; [|discriminate].
    exists p. split; [reflexivity|]. apply negb_true_iff in Pr.
    assert (Hno : forall q', In q' (squeues s) -> q_prio q' < p -> queue_ready s now q' = false).
    { intros q' Hq' Hlt. destruct (queue_ready s now q') eqn:E; [|reflexivity]. exfalso.
      assert (Hex : existsb (fun q0 => (q_prio q0 <? p) && queue_ready s now q0) (squeues s) = true).
      { apply existsb_exists. exists q'. split; [exact Hq'|]. apply andb_true_iff. split; [apply N.ltb_lt; exact Hlt|exact E]. }
      congruence. }
    split; [|exact Hno].
    destruct (N.le_gt_cases p (q_prio q)) as [Hle|Hgt]; [exact Hle|].
    rewrite (Hno q Hq Hgt) in Hr. discriminate.
  Qed.

  (* the same read backwards: a silent read means that no queue was ready *)
  Theorem silent_read_nothing_ready now s s' :
    PInv s -> sread now s = (RNothing, s') -> forall q, In q (squeues s) -> queue_ready s now q = false.
  Proof.
    intros P H q Hq. destruct (queue_ready s now q) eqn:E; [|reflexivity].
    exfalso. exact (ready_not_silent now s q s' P Hq E H).
  Qed.

  (* ---------- FullFDT mode: file sessions never publish ---------- *)
  Lemma gnft_fdtq_full prio now t id t1 :
    full_fdt t = true -> gnft prio now t = ROk _ (Some id, t1) -> fdtq t1 = fdtq t.
  Proof.
    intros Hf G. apply gnft_some in G. destruct G as (a & r & ti & _ & _ & _ & _ & ->).
    unfold maybe_publish. cbn [full_fdt upd_t set_objs log_ev set_queue]. rewrite Hf. reflexivity.
  Qed.

  Lemma fresh_run_fdtq_full now ss0 t o ss' t' :
    full_fdt t = true -> fresh_run now ss0 t o ss' t' -> fdtq t' = fdtq t.
  Proof.
    intros Hf R. destruct R as [G|G|id t1 G Hw|id t1 c e' G Hq Hp Er]; try reflexivity.
    - eapply gnft_fdtq_full; eauto.
    - change (fdtq (upd_t t1 id t_tickf)) with (fdtq t1). eapply gnft_fdtq_full; eauto.
  Qed.

  Lemma file_run_fdtq_full now ss t o ss' t' :
    full_fdt t = true -> file_run now ss t o ss' t' -> fdtq t' = fdtq t.
  Proof.
    intros Hf R. destruct R as [id e Hfi He Hw|e He Hfi|id e c e' Hfi He Hq Hp Er|o ss' t' He R|id e e' o ss' t' Hfi He Hq Hp Er R];
      try reflexivity.
    - eapply fresh_run_fdtq_full; eauto.
    - rewrite (fresh_run_fdtq_full now _ _ _ _ _ (eq_trans (td_full id now t) Hf) R). apply td_fdtq.
  Qed.

  Lemma vstep_fdtq_full now L fs t ss o L' t' :
    INV L fs t -> full_fdt t = true -> vstep now L t ss o L' t' -> fdtq t' = fdtq t /\ full_fdt t' = true.
  Proof.
    intros I Hf V. pose proof (vstep_static _ _ _ _ _ _ _ _ _ _ V) as St.
    split; [|unfold static in St; congruence].
    destruct V as [L1 ss L2 t o ss' t' H].
    destruct (Lwf_mid _ _ _ (inv_L _ _ _ I)) as (A1 & _).
    eapply file_run_fdtq_full; [exact Hf|]. eapply file_run_inv; eauto.
  Qed.

  Lemma qpath_fdtq_full now L fs t L' t' :
    INV L fs t -> full_fdt t = true -> qpath now L t L' t' -> fdtq t' = fdtq t /\ full_fdt t' = true.
  Proof.
    intros I Hf Pq. revert I Hf. induction Pq as [|L t ss L1 t1 L2 t2 V Pq IH]; intros I Hf; [auto|].
    destruct (vstep_fdtq_full now _ _ _ _ _ _ _ I Hf V) as [E1 F1].
    destruct (IH (inv_vstep _ _ _ _ _ _ _ _ _ _ _ I V) F1) as [E2 F2]. split; [congruence|exact F2].
  Qed.

  Lemma rq_fdtq_full now fs todo done t o qs' t' :
    Forall wfq done -> Forall wfq todo -> INV (all_sessions (done ++ todo)) fs t -> full_fdt t = true ->
    rqs done todo now t = (o, qs', t') -> fdtq t' = fdtq t.
  Proof.
    intros Wd Wt I Hf H.
    destruct (read_queues_path fdt_npk fdt_ok divf now _ _ _ _ _ _ Wd Wt H) as (_ & _ & (Lm & tm & Pm & Rm)).
    destruct (qpath_fdtq_full now _ _ _ _ _ I Hf Pm) as [Em Fm].
    destruct Rm as [(_ & _ & ->)|(_ & x & _ & Vx)]; [exact Em|].
    destruct (vstep_fdtq_full now _ _ _ _ _ _ _ (inv_qpath _ _ _ _ _ _ _ _ _ I Pm) Fm Vx) as [E2 _]. congruence.
  Qed.

  (* ---------- the object behind any packet of a file session ---------- *)
  Lemma out_of_congr t t' id c : f_o (obj t' id) = f_o (obj t id) -> out_of t' id c = out_of t id c.
  Proof. intros E. unfold out_of. rewrite E. reflexivity. Qed.

  Lemma out_fresh_any L1 ss0 L2 fs t now o ss' t' :
    INV (L1 ++ ss0 :: L2) fs t -> fresh_run now ss0 t o ss' t' -> o <> RNothing -> o <> RPanic ->
    exists id c, In id (queue t) /\ o = out_of t id c /\ o_prio (f_o (obj t id)) = ss_prio ss0 /\ fdtq t = [].
  Proof.
    intros I R Hn Hp.
    destruct R as [G|G|id t1 G Hw|id t1 c0 e' G Hq Hpc Er]; try congruence.
    destruct (start_facts _ _ _ _ _ _ _ _ G) as (a & r & ti & Hqt & _ & _ & _ & Hs & _ & _ & _ & Ho & Hfd & _).
    assert (Hin : In id (queue t)) by (rewrite Hqt; apply in_or_app; right; left; reflexivity).
    assert (Hl : (id < length (objs t))%nat).
    { apply (own_bound _ _ _ _ _ _ _ _ (inv_own _ _ _ I)). apply in_or_app. right. assumption. }
    exists id, c0. split; [assumption|]. split; [|split; [eapply stn_prio; eauto|auto]].
    apply out_of_congr. apply (Ho id Hl).
  Qed.

  Lemma out_any now L fs t ss o L' t' :
    INV L fs t -> vstep now L t ss o L' t' -> o <> RNothing -> o <> RPanic ->
    exists id c, In id (live L t) /\ o = out_of t id c /\ o_prio (f_o (obj t id)) = ss_prio ss /\ fdtq t = [].
  Proof.
    intros I V Hn Hp. destruct V as [L1 ss L2 t o ss' t' H].
    destruct (Lwf_mid _ _ _ (inv_L _ _ _ I)) as (A1 & _).
    apply file_run_inv in H; [|assumption].
    destruct H as [id e Hf He Hw|e He Hf|id e c0 e' Hf He Hq Hpc Er|o ss' t' He R|id e e' o ss' t' Hf He Hq Hpc Er R];
      try congruence.
    - exists id, c0. split; [apply live_mid; auto|]. split; [reflexivity|]. split; [|assumption].
      apply (own_prio _ _ _ _ _ _ _ _ (inv_own _ _ _ I)). rewrite (slot_pairs_mid_some _ _ _ _ Hf).
      apply in_or_app. right. left. reflexivity.
    - destruct (out_fresh_any _ _ _ _ _ _ _ _ _ I R Hn Hp) as (id & c & Hin & Ho & Hpr & Hq).
      exists id, c. split; [apply live_mid; auto|auto].
    - assert (I0 : INV (L1 ++ empty_of ss :: L2) fs (transfer_done id now t)) by (apply inv_transfer_done; assumption).
      destruct (out_fresh_any _ _ _ _ _ _ _ _ _ I0 R Hn Hp) as (id' & c & Hin & Ho & Hpr & _).
      exists id', c. split; [|split; [|split]].
      + apply live_mid. destruct (td_queue id now t) as [E|E]; rewrite E in Hin; auto.
        apply in_app_or in Hin. destruct Hin as [Hin|[<-|[]]]; auto.
      + rewrite Ho. apply out_of_congr. apply td_obj_o.
      + rewrite td_obj_o in Hpr. exact Hpr.
      + assumption.
  Qed.

  (* the queues return a packet: it belongs to the first queue that has a ready session *)
  Lemma rq_emit now fs : forall todo done t o qs' t',
    Forall wfq done -> Forall wfq todo -> StronglySorted N.lt (map q_prio todo) ->
    INV (all_sessions (done ++ todo)) fs t ->
    rqs done todo now t = (o, qs', t') -> o <> RNothing -> o <> RPanic ->
    exists p id c, In id (live (all_sessions (done ++ todo)) t) /\ o = out_of t id c
                 /\ o_prio (f_o (obj t id)) = p /\ In p (map q_prio todo) /\ fdtq t = []
                 /\ forall q, In q todo -> q_prio q < p ->
                      forall ss, In ss (q_sessions q) -> ~ Rdy now ss t (q_prio q).
  Proof.
    induction todo as [|q r IH]; intros done t o qs' t' Wd Wt Hs I H Hn Hp.
    { cbn [read_queues] in H. inversion H; subst. congruence. }
    cbn [read_queues] in H.
    destruct (rpq q now t) as [[o1 q1] t1] eqn:Eq. unfold read_priority_queue in Eq.
    inversion Wt as [|? ? Wq Wr]; subst.
    cbn [map] in Hs. apply StronglySorted_inv in Hs. destruct Hs as [Hs Hlt].
    rewrite all_sessions_mid in I.
    destruct (rr_loop_path fdt_npk fdt_ok divf now (all_sessions done) (all_sessions r) _ _ _ _ _ _ _ Wq Eq)
      as (W1 & P1 & L1 & (Lm & tm & Pm & Rm)).
    assert (Im : INV Lm fs tm) by (eapply inv_qpath; eauto).
    pose proof (shrink_qpath _ _ _ _ _ _ _ _ _ I Pm) as Sm.
    assert (Hstop : forall o2, o2 = o1 -> o1 <> RNothing -> (o, qs', t') = (o2, done ++ q1 :: r, t1) ->
      exists p id c, In id (live (all_sessions (done ++ q :: r)) t) /\ o = out_of t id c
                 /\ o_prio (f_o (obj t id)) = p /\ In p (map q_prio (q :: r)) /\ fdtq t = []
                 /\ forall q0, In q0 (q :: r) -> q_prio q0 < p ->
                      forall ss, In ss (q_sessions q0) -> ~ Rdy now ss t (q_prio q0)).
    { intros o2 -> Hn1 E. inversion E; subst o qs' t'. clear E.
      destruct Rm as [(Hc & _)|(_ & x & Hx & Vx)]; [contradiction|].
      destruct (out_any _ _ _ _ _ _ _ _ Im Vx Hn Hp) as (id & c & Hin & Ho & Hpr & Hqm).
      destruct (live_shrink_back _ _ _ _ _ _ I Sm Hin) as (Hin0 & Et & Eo).
      exists (q_prio q), id, c. rewrite all_sessions_mid.
      split; [assumption|]. split; [rewrite Ho; apply out_of_congr; exact Eo|]. split; [congruence|].
      split; [left; reflexivity|]. split; [apply (sh_fdtq _ _ _ _ Sm Hqm)|].
      intros q0 [<-|Hq0in] Hlt0; [exfalso; apply (N.lt_irrefl _ Hlt0)|].
      exfalso. rewrite Forall_forall in Hlt. specialize (Hlt (q_prio q0) (in_map _ _ _ Hq0in)).
      apply (N.lt_irrefl (q_prio q)). eapply N.lt_trans; eauto. }
    destruct o1; try (apply (Hstop _ eq_refl); [discriminate|symmetry; exact H]).
    (* this queue was quiet *)
    destruct Rm as [(_ & -> & ->)|(Hc & _)]; [|contradiction].
    assert (Wd' : Forall wfq (done ++ [q1])) by (apply Forall_app; split; [assumption|constructor; [assumption|constructor]]).
    assert (I1 : INV (all_sessions ((done ++ [q1]) ++ r)) fs t1)
      by (rewrite <- app_assoc; cbn [app]; rewrite all_sessions_mid; assumption).
    destruct (IH (done ++ [q1]) t1 o qs' t' Wd' Wr Hs I1 H Hn Hp) as (p & id & c & Hin & Ho & Hpr & Hk & Hq1 & Hno).
    rewrite <- app_assoc in Hin. cbn [app] in Hin. rewrite all_sessions_mid in Hin.
    destruct (live_shrink_back _ _ _ _ _ _ I Sm Hin) as (Hin0 & Et & Eo).
    assert (Hq0 : fdtq t = []) by (apply (sh_fdtq _ _ _ _ Sm Hq1)).
    exists p, id, c. rewrite all_sessions_mid.
    split; [assumption|]. split; [rewrite Ho; apply out_of_congr; exact Eo|]. split; [congruence|]. split; [right; assumption|].
    split; [assumption|].
    intros q0 [<-|Hq0in] Hlt0 ss Hss Hr.
    - destruct (In_nth_error _ _ Hss) as (j & Hj).
      assert (Hjl : (j < length (q_sessions q))%nat) by (apply nth_error_Some; congruence).
      assert (Hrem : (rem (q_index q) (q_index q) (length (q_sessions q)) <= length (q_sessions q))%nat).
      { unfold rem. rewrite Nat.ltb_irrefl. destruct Wq. lia. }
      assert (Harc : in_arc (q_index q) (q_index q) j).
      { unfold in_arc. rewrite Nat.ltb_irrefl. lia. }
      apply (rr_noisy fdt_npk fdt_ok divf now (all_sessions done) (all_sessions r) fs (length (q_sessions q)) q (q_index q) t
                      RNothing q1 t1 j ss Wq (proj1 Wq) I Hq1 Hrem Harc Hj Hr Eq). reflexivity.
    - apply (Hno q0 Hq0in Hlt0 ss Hss).
      destruct (In_nth_error _ _ Hss) as (j & Hj).
      destruct (in_split _ _ Hq0in) as (ra & rb & ->).
      set (k := (length (all_sessions done) + (length (q_sessions q) + (length (all_sessions ra) + j)))%nat).
      assert (Hwq0 : wfq q0) by (rewrite Forall_forall in Wr; apply Wr; assumption).
      assert (Hk0 : forall X, length X = length (q_sessions q) ->
                nth_error (all_sessions done ++ X ++ all_sessions (ra ++ q0 :: rb)) k = Some ss).
      { intros X HX. unfold k. rewrite nth_error_app2 by lia.
        replace (length (all_sessions done) + (length (q_sessions q) + (length (all_sessions ra) + j)) - length (all_sessions done))%nat
          with (length X + (length (all_sessions ra) + j))%nat by lia.
        rewrite nth_error_app2 by lia.
        replace (length X + (length (all_sessions ra) + j) - length X)%nat with (length (all_sessions ra) + j)%nat by lia.
        rewrite all_sessions_mid. rewrite nth_error_app2 by lia.
        replace (length (all_sessions ra) + j - length (all_sessions ra))%nat with j by lia.
        rewrite nth_error_app1 by (apply nth_error_Some; congruence). assumption. }
      assert (Hat : RdyAt now k (all_sessions done ++ q_sessions q ++ all_sessions (ra ++ q0 :: rb)) t).
      { exists ss. split; [apply Hk0; reflexivity|]. destruct Hwq0 as [_ Hp0]. rewrite (Hp0 ss Hss). assumption. }
      destruct (rdyat_qpath fdt_npk fdt_ok divf _ _ _ _ _ _ _ I Pm Hq1 Hat) as (ss2 & Hk2 & Hr2).
      rewrite (Hk0 _ L1) in Hk2. inversion Hk2; subst ss2.
      destruct Hwq0 as [_ Hp0]. rewrite (Hp0 ss Hss) in Hr2. exact Hr2.
  Qed.

  (* G1, second form.  The FDT session is idle (its run at this instant is silent) and the session is
     in FullFDT mode (starting a transfer publishes nothing): the read returns the packet of an
     object that holds a slot or waits for one, of the priority of the ready queue or higher, and no
     queue of a smaller key than that object was ready. *)
  Theorem prompt_read_object now s q o s' s1 :
    PInv s -> divf_total divf -> In q (squeues s) -> queue_ready s now q = true ->
    runfdt now s = (RNothing, s1) -> full_fdt s = true ->
    sread now s = (o, s') ->
    exists id c, In id (live (all_sessions (squeues s)) s) /\ o = out_of s id c
      /\ o_prio (f_o (obj s id)) <= q_prio q
      /\ forall q', In q' (squeues s) -> q_prio q' < o_prio (f_o (obj s id)) -> queue_ready s now q' = false.
  Proof.
    intros P Hd Hq Hr E1 Hfull H.
    pose proof (read_no_panic fdt_npk fdt_ok divf now s o s' Hd (q_inv _ (p_q _ P)) H) as Np.
    pose proof (q_inv _ (p_q _ P)) as IS.
    unfold sender_read in H. rewrite E1 in H.
    pose proof (PInv_runfdt fdt_npk fdt_ok divf now s _ s1 P E1) as P1.
    destruct (Inv_runfdt fdt_npk fdt_ok divf now s _ s1 IS E1) as (IS1 & F1 & _).
    destruct (runfdt_silent now s s1 P E1) as (_ & G1).
    destruct (rqs [] (squeues s1) now s1) as [[o2 qs] s2] eqn:E2.
    assert (Hfull1 : full_fdt s1 = true) by (rewrite (fr_full _ _ _ F1); exact Hfull).
    pose proof (rq_fdtq_full now (fdt_session s1) (squeues s1) [] s1 o2 qs s2 (Forall_nil _) (Inv_wfq _ IS1) (Inv_inv _ IS1) Hfull1 E2) as G2.
    rewrite G1 in G2.
    assert (Hrdy : forall q0, In q0 (squeues s) -> queue_ready s now q0 = true ->
              In q0 (squeues s1) /\ exists ss, In ss (q_sessions q0) /\ Rdy now ss s1 (q_prio q0))
      by (intros q0 Hq0 Hr0; exact (ready_after_fdt now s _ s1 q0 IS E1 Hq0 Hr0)).
    assert (Hn2 : o2 <> RNothing).
    { intros ->. destruct (Hrdy q Hq Hr) as (Hq1 & ss & Hss & HR).
      apply (rq_silent now (fdt_session s1) (squeues s1) [] s1 qs s2 (Forall_nil _) (Inv_wfq _ IS1) (Inv_inv _ IS1) E2 G2 q Hq1 ss Hss HR). }
    assert (Eo : o = o2) by (destruct o2; try (inversion H; reflexivity); congruence).
    subst o2. clear H.
    destruct (rq_emit now (fdt_session s1) (squeues s1) [] s1 o qs s2 (Forall_nil _) (Inv_wfq _ IS1) (Inv_sorted _ IS1)
                      (Inv_inv _ IS1) E2 Hn2 Np) as (p & id & c & Hin & Ho & Hpr & Hk & _ & Hno).
    cbn [app] in Hin.
    assert (Hin0 : In id (live (all_sessions (squeues s)) s)).
    { unfold live in *. rewrite <- (fr_queue _ _ _ F1), <- (fr_squeues _ _ _ F1). exact Hin. }
    assert (Hl : (id < length (objs s))%nat).
    { apply (own_bound _ _ _ _ _ _ _ _ (inv_own _ _ _ (Inv_inv _ IS))). exact Hin0. }
    destruct (fr_obj _ _ _ F1 id Hl) as (Efo & _ & _).
    exists id, c. split; [exact Hin0|]. split; [rewrite Ho; apply out_of_congr; exact Efo|].
    rewrite <- Efo, Hpr.
    assert (Hno0 : forall q', In q' (squeues s) -> q_prio q' < p -> queue_ready s now q' = false).
    { intros q' Hq' Hlt. destruct (queue_ready s now q') eqn:E; [|reflexivity]. exfalso.
      destruct (Hrdy q' Hq' E) as (Hq1 & ss & Hss & HR). exact (Hno q' Hq1 Hlt ss Hss HR). }
    split; [|exact Hno0].
    destruct (N.le_gt_cases p (q_prio q)) as [Hle|Hgt]; [exact Hle|].
    rewrite (Hno0 q Hq Hgt) in Hr. discriminate.
  Qed.

  (* ---------- a silent read, object by object ---------- *)
  Lemma existsb_false {A} (f : A -> bool) l : existsb f l = false -> forall x, In x l -> f x = false.
  Proof.
    intros H x Hx. destruct (f x) eqn:E; [|reflexivity].
    assert (existsb f l = true) by (apply existsb_exists; exists x; auto). congruence.
  Qed.

  Lemma in_all_sessions qs q ss : In q qs -> In ss (q_sessions q) -> In ss (all_sessions qs).
  Proof. intros Hq Hss. unfold all_sessions. apply in_flat_map. exists q. split; assumption. Qed.

  (* (a) an object that holds a slot and still has a packet to send is paced into the future;
     (b) an object that waits and may start waits behind objects that are paced into the future:
         every slot of its queue is taken by one *)
  Theorem silent_read_objects now s s' :
    PInv s -> sread now s = (RNothing, s') ->
    (forall q ss id e, In q (squeues s) -> In ss (q_sessions q) -> ss_file ss = Some id -> ss_enc ss = Some e ->
       enc_has_packet e = true -> paced now s id = true)
    /\ (forall q id, In q (squeues s) -> In id (queue s) ->
          should_transfer_now (obj s id) (q_prio q) (full_fdt s) now = true ->
          forall ss, In ss (q_sessions q) ->
            exists id' e, ss_file ss = Some id' /\ ss_enc ss = Some e /\ paced now s id' = true).
  Proof.
    intros P H.
    pose proof (silent_read_nothing_ready now s s' P H) as Hnr.
    pose proof (inv_L _ _ _ (Inv_inv _ (q_inv _ (p_q _ P)))) as LW.
    assert (Hslot : forall q ss id e, In q (squeues s) -> In ss (q_sessions q) -> ss_file ss = Some id -> ss_enc ss = Some e ->
              enc_has_packet e && tick_due now (obj s id) = false).
    { intros q ss id e Hq Hss Hf He. specialize (Hnr q Hq). unfold queue_ready in Hnr.
      apply orb_false_iff in Hnr. destruct Hnr as [Hnr _].
      pose proof (existsb_false _ _ Hnr ss Hss) as Hx. unfold ready_in_slot in Hx. rewrite Hf, He in Hx. exact Hx. }
    split.
    - intros q ss id e Hq Hss Hf He Hp. specialize (Hslot q ss id e Hq Hss Hf He).
      rewrite Hp, tick_due_paced in Hslot. cbn [andb] in Hslot. apply negb_false_iff in Hslot. exact Hslot.
    - intros q id Hq Hid Hs ss Hss. pose proof (Hnr q Hq) as Hn. unfold queue_ready in Hn.
      apply orb_false_iff in Hn. destruct Hn as [_ Hn]. unfold ready_waiting in Hn.
      assert (Hex : existsb (fun i => should_transfer_now (obj s i) (q_prio q) (full_fdt s) now) (queue s) = true)
        by (apply existsb_exists; exists id; auto).
      rewrite Hex, andb_true_r in Hn.
      pose proof (existsb_false _ _ Hn ss Hss) as Hx. cbv beta in Hx.
      destruct (LW ss (in_all_sessions _ _ _ Hq Hss)) as (_ & L2 & L3).
      destruct (ss_enc ss) as [e|] eqn:He; [|discriminate].
      destruct (ss_file ss) as [id'|] eqn:Hf; [|specialize (L3 eq_refl); discriminate].
      exists id', e. split; [reflexivity|]. split; [reflexivity|].
      specialize (Hslot q ss id' e Hq Hss Hf He). rewrite tick_due_paced in *.
      destruct (paced now s id'); [reflexivity|]. cbn [negb] in *. rewrite andb_true_r in *.
      destruct (enc_has_packet e); discriminate.
  Qed.

  (* after a silent read: no FDT instance waits, every file session has nothing to do, and every
     object still in a transmission slot is paced into the future *)
  Theorem silent_read_post now s s' :
    PInv s -> sread now s = (RNothing, s') ->
    fdtq s' = []
    /\ (forall ss, In ss (all_sessions (squeues s')) -> fstuck now ss s')
    /\ (forall ss id, In ss (all_sessions (squeues s')) -> ss_file ss = Some id -> paced now s' id = true).
  Proof.
    intros P H. pose proof (PInv_sread fdt_npk fdt_ok divf now s _ s' P H) as P'.
    unfold sender_read in H.
    destruct (runfdt now s) as [o1 s1] eqn:E1.
    pose proof (PInv_runfdt fdt_npk fdt_ok divf now s o1 s1 P E1) as P1.
    destruct o1; try (inversion H; fail).
    destruct (rqs [] (squeues s1) now s1) as [[o2 qs] s2] eqn:E2.
    pose proof (PInv_queues fdt_npk fdt_ok divf now s1 o2 qs s2 P1 E2) as P3.
    destruct o2; try (inversion H; fail).
    destruct (runfdt_silent now _ s' P3 H) as (_ & G').
    pose proof (q_inv _ (p_q _ P1)) as IS1.
    assert (S2 : forall ss, In ss (all_sessions qs) -> fstuck now ss s2).
    { apply (rq_quiet fdt_npk fdt_ok divf now (fdt_session s1) (squeues s1) [] s1 qs s2); auto.
      - apply (Inv_wfq _ IS1).
      - apply (Inv_inv _ IS1).
      - intros ss []. }
    set (s3 := set_squeues s2 qs) in *.
    pose proof H as H3. apply runfdt_spec in H3. destruct H3 as (fs' & t' & H3 & Es').
    pose proof (Inv_inv _ (q_inv _ (p_q _ P3))) as I3. change (squeues s3) with qs in I3.
    destruct (fdt_quiet fdt_npk fdt_ok divf now _ _ s3 fs' t' I3 (q_x _ (p_q _ P3)) H3) as (D' & Ht').
    assert (S3 : forall ss, In ss (all_sessions qs) -> fstuck now ss t').
    { intros ss Hss. destruct Ht' as [->|(c & Hc & ->)].
      - apply (S2 ss Hss).
      - eapply fstuck_fdt_done; [exact I3|exact Hc|exact Hss|]. apply (S2 ss Hss). }
    assert (Esq : squeues s' = qs) by (rewrite Es'; destruct Ht' as [->|(c & Hc & ->)]; reflexivity).
    assert (S4 : forall ss, In ss (all_sessions (squeues s')) -> fstuck now ss s').
    { intros ss Hss. rewrite Esq in Hss. rewrite Es'. exact (S3 ss Hss). }
    split; [exact G'|]. split; [exact S4|].
    intros ss id Hss Hf. specialize (S4 ss Hss). unfold fstuck in S4.
    destruct (inv_L _ _ _ (Inv_inv _ (q_inv _ (p_q _ P'))) ss Hss) as (_ & L2 & _).
    destruct (ss_enc ss) as [e|] eqn:He; [|rewrite (L2 eq_refl) in Hf; discriminate].
    rewrite Hf in S4. destruct S4 as [S4|S4]; [contradiction|exact S4].
  Qed.
End Prompt.

(* ============================== part 3: object-wise invariants along a read ============================== *)

(* [R j o t]: a property of the transfer state [t] of object number [j] (description [o]) that is
   kept by the three moves of a read at [now]: a start (of an object that is not in transmission),
   the end of a transfer, a pacing tick; it holds of the blank state of the objects numbered from
   [n0] on (the FDT instances a read creates). *)
Section ObjInv.
  Variable fdt_npk : N -> nat.
  Variable fdt_ok : N -> bool.
  Variable divf : Z -> N -> option Z.
  Variable R : nat -> odesc -> bool -> tinfo -> Prop.
  Variable now : Z.
  Variable n0 : nat.

  Hypothesis R_init : forall j o p t ti, R j o p t -> t_transferring t = false -> t_init divf o now t = Some ti -> R j o p ti.
  Hypothesis R_done : forall j o p t, R j o p t -> R j o p (t_done now t).
  Hypothesis R_tick : forall j o p t, R j o p t -> R j o p (t_tickf t).
  Hypothesis R_pub : forall j o p t, R j o p t -> R j o true t.
  Hypothesis R_fresh : forall j o p, (n0 <= j)%nat -> R j o p dummy_t.

  Notation srun := (session_run fdt_npk fdt_ok divf).
  Notation gnft := (get_next_file_transfer fdt_npk fdt_ok divf).
  Notation gnfdt := (get_next_fdt_transfer fdt_npk fdt_ok divf).
  Notation rrl := (rr_loop fdt_npk fdt_ok divf).
  Notation rpq := (read_priority_queue fdt_npk fdt_ok divf).
  Notation rqs := (read_queues fdt_npk fdt_ok divf).
  Notation sread := (sender_read fdt_npk fdt_ok divf).
  Notation runfdt := (run_fdt_session fdt_npk fdt_ok divf).
  Notation publ := (publish fdt_npk fdt_ok).

  Definition OI (t : st) : Prop :=
    (n0 <= length (objs t))%nat /\ forall j, R j (f_o (obj t j)) (f_pub (obj t j)) (f_t (obj t j)).

  Lemma OI_fields t t' : objs t' = objs t -> OI t -> OI t'.
  Proof. intros E [A B]. split; [rewrite E; exact A|]. intros j. unfold obj. rewrite E. apply B. Qed.

  Lemma OI_upd_at t id g :
    OI t -> ((id < length (objs t))%nat -> R id (f_o (obj t id)) (f_pub (obj t id)) (g (f_t (obj t id)))) -> OI (upd_t t id g).
  Proof.
    intros [A B] Hg. split; [rewrite len_upd_t; exact A|]. intros j. rewrite obj_upd_t_o, obj_upd_t_pub.
    destruct (obj_upd_t_t_cases t id g j) as [E|(-> & Hl & E)]; rewrite E; [apply B|apply Hg; exact Hl].
  Qed.

  Lemma OI_publish now' t : OI t -> OI (snd (publ now' t)).
  Proof.
    intros [A B]. destruct (fdt_ok (fdtid t)) eqn:E; [|rewrite publish_fail by assumption; split; assumption].
    rewrite publish_ok_eq by assumption. cbn [snd].
    destruct (pub_st_objs fdt_npk now' t) as (P1 & P2 & P3 & P4).
    split; [rewrite P1; lia|]. intros j.
    destruct (Nat.lt_ge_cases j (length (objs t))) as [Hl|Hl].
    - destruct (P2 j Hl) as (E1 & E2 & E3). rewrite E1, E2.
      assert (Hc : f_pub (obj (pub_st fdt_npk now' t) j) = f_pub (obj t j) \/ f_pub (obj (pub_st fdt_npk now' t) j) = true).
      { destruct (f_pub (obj t j)); [right; apply E3; reflexivity|]. destruct (f_pub (obj (pub_st fdt_npk now' t) j)); auto. }
      destruct Hc as [Hc|Hc]; rewrite Hc; [apply B|apply (R_pub j _ (f_pub (obj t j))); apply B].
    - destruct (Nat.eq_dec j (length (objs t))) as [->|Hne].
      + rewrite P3, P4. apply R_fresh. exact A.
      + specialize (B j). unfold obj in *. rewrite nth_overflow in B by lia. rewrite nth_overflow by lia. exact B.
  Qed.

  Lemma OI_td id t : OI t -> OI (transfer_done id now t).
  Proof.
    intros H. apply (OI_fields (upd_t t id (t_done now))); [apply td_objs|].
    apply OI_upd_at; [exact H|]. intros _. apply R_done. apply H.
  Qed.

  Lemma OI_gnft prio t x t1 : OI t -> gnft prio now t = ROk _ (x, t1) -> OI t1.
  Proof.
    intros H G. destruct x as [id|].
    - apply gnft_some in G. destruct G as (a & r & ti & _ & Hs & _ & Hi & ->).
      set (t0 := log_ev (set_queue t (a ++ r)) (EvStart (toi_of t id))).
      assert (H0 : OI t0) by (apply (OI_fields t); [reflexivity|exact H]).
      assert (Hm : OI (upd_t t0 id (fun _ => ti))).
      { apply OI_upd_at; [exact H0|]. intros _. change (obj t0 id) with (obj t id).
        eapply R_init; [apply H|eapply stn_not_transferring; exact Hs|exact Hi]. }
      unfold maybe_publish. destruct (full_fdt _); [exact Hm|apply OI_publish; exact Hm].
    - apply gnft_none in G. destruct G as [-> _]. exact H.
  Qed.

  Lemma OI_gnfdt t x t1 : OI t -> gnfdt now t = ROk _ (x, t1) -> OI t1.
  Proof.
    intros H G. rewrite (gnfdt_unfold fdt_npk fdt_ok divf) in G.
    destruct (match cur_fdt t with Some c => t_transferring (f_t (obj t c)) | None => false end);
      [inversion G; subst; exact H|].
    cbv zeta in G.
    set (t1' := if current_fdt_will_expire now t then snd (publ now t) else t) in G.
    assert (H1 : OI t1') by (unfold t1'; destruct (current_fdt_will_expire now t); [apply OI_publish|]; exact H).
    clearbody t1'.
    assert (H2 : OI (pop_fdt t1')).
    { unfold pop_fdt. destruct (fdtq t1'); [exact H1|]. apply (OI_fields t1'); [reflexivity|exact H1]. }
    set (t2 := pop_fdt t1') in *. clearbody t2.
    destruct (cur_fdt t2) as [c|]; [|inversion G; subst; exact H2].
    destruct (should_transfer_now (obj t2 c) 0 (full_fdt t2) now) eqn:Hs; [|inversion G; subst; exact H2].
    destruct (t_init divf (f_o (obj t2 c)) now (f_t (obj t2 c))) as [ti|] eqn:Hi; [|discriminate].
    inversion G; subst. apply OI_upd_at; [exact H2|]. intros _.
    eapply R_init; [apply H2|eapply stn_not_transferring; exact Hs|exact Hi].
  Qed.

  Lemma OI_srun : forall fuel ss t o ss' t', OI t -> srun fuel ss now t = (o, ss', t') -> OI t'.
  Proof.
    induction fuel as [|f IH]; intros ss t o ss' t' HO H; cbn [session_run] in H.
    { inversion H; subst. exact HO. }
    assert (Hr : match (match ss_enc ss with None => get_next fdt_npk fdt_ok divf ss now t | Some _ => ROk _ (ss, t) end) with
                 | RPanicked _ => True
                 | ROk _ (ss1, s1) => OI s1
                 end).
    { destruct (ss_enc ss); [exact HO|]. unfold get_next. destruct (ss_fdt_only ss).
      - destruct (gnfdt now t) as [[[c|] t1]|] eqn:G; try exact Logic.I; eapply OI_gnfdt; eauto.
      - destruct (gnft (ss_prio ss) now t) as [[[c|] t1]|] eqn:G; try exact Logic.I; eapply OI_gnft; eauto. }
    destruct (match ss_enc ss with None => get_next fdt_npk fdt_ok divf ss now t | Some _ => ROk _ (ss, t) end)
      as [[ss1 s1]|]; [|inversion H; subst; exact HO].
    destruct (negb (ss_fdt_only ss1) && negb (Nat.eqb (length (fdtq s1)) 0)); [inversion H; subst; exact Hr|].
    destruct (ss_enc ss1) as [e|]; [|inversion H; subst; exact Hr].
    destruct (ss_file ss1) as [id|]; [|inversion H; subst; exact Hr].
    destruct (match t_next_ts (f_t (obj s1 id)) with Some ts => (now <? ts)%Z | None => false end);
      [inversion H; subst; exact Hr|].
    destruct (enc_read _ e) as [[cl|] e'].
    - inversion H; subst. apply OI_upd_at; [exact Hr|]. intros _. apply R_tick. apply Hr.
    - eapply IH; [|exact H]. apply OI_td. exact Hr.
  Qed.

  Lemma OI_runfdt s o s1 : OI s -> runfdt now s = (o, s1) -> OI s1.
  Proof.
    intros HO H. apply runfdt_spec in H. destruct H as (fs' & t' & H & ->).
    apply (OI_fields t'); [reflexivity|]. eapply OI_srun; eauto.
  Qed.

  Lemma OI_rrl : forall n q orig t o q' t', OI t -> rrl n q orig now t = (o, q', t') -> OI t'.
  Proof.
    induction n as [|n IH]; intros q orig t o q' t' HO H; cbn [rr_loop] in H.
    { inversion H; subst. exact HO. }
    destruct (nth_error (q_sessions q) (q_index q)) as [ss|]; [|inversion H; subst; exact HO].
    destruct (srun 4 ss now t) as [[o1 ss1] t1] eqn:Er.
    pose proof (OI_srun _ _ _ _ _ _ HO Er) as H1.
    destruct o1; try (inversion H; subst; exact H1).
    destruct (Nat.eqb _ orig); [inversion H; subst; exact H1|]. eapply IH; eauto.
  Qed.

  Lemma OI_rqs : forall todo done t o qs t', OI t -> rqs done todo now t = (o, qs, t') -> OI t'.
  Proof.
    induction todo as [|q r IH]; intros done t o qs t' HO H; cbn [read_queues] in H.
    { inversion H; subst. exact HO. }
    destruct (rpq q now t) as [[o1 q1] t1] eqn:E. unfold read_priority_queue in E.
    pose proof (OI_rrl _ _ _ _ _ _ _ HO E) as H1.
    destruct o1; try (inversion H; subst; exact H1). eapply IH; eauto.
  Qed.

  Lemma OI_sread s o s' : OI s -> sread now s = (o, s') -> OI s'.
  Proof.
    intros HO H. unfold sender_read in H.
    destruct (runfdt now s) as [o1 s1] eqn:E1.
    pose proof (OI_runfdt _ _ _ HO E1) as H1.
    destruct o1; try (inversion H; subst; exact H1).
    destruct (rqs [] (squeues s1) now s1) as [[o2 qs] s2] eqn:E2.
    pose proof (OI_rqs _ _ _ _ _ _ H1 E2) as H2.
    assert (H3 : OI (set_squeues s2 qs)) by (apply (OI_fields s2); [reflexivity|exact H2]).
    destruct o2; try (inversion H; subst; exact H3).
    eapply OI_runfdt; eauto.
  Qed.
End ObjInv.

(* ============================== part 4: transfers whose pacing tick is zero ============================== *)

(* the target of [o] gives a transfer started at [ls] a zero tick: a target duration of 0, or a
   deadline that is not after the start of the transfer (Duration::div_f64 of a zero duration) *)
Definition zero_at (ls : Z) (o : odesc) : Prop :=
  match o_target o with TDuration d => d = 0%Z | TTime tm => (tm <= ls)%Z | _ => False end.

(* objects that are never paced: no target, or as fast as possible *)
Definition unpaced_target (o : odesc) : Prop :=
  match o_target o with TNone | TFast => True | _ => False end.

(* Duration::div_f64 of a zero duration is not positive (it is zero) *)
Definition divf_zero (divf : Z -> N -> option Z) : Prop := forall n k, divf 0%Z n = Some k -> (k <= 0)%Z.

(* a transfer in progress knows its start; when that start makes the tick zero, the tick is not
   positive and the next due time is not after [T] *)
Definition zt (T : Z) (o : odesc) (t : tinfo) : Prop :=
  t_transferring t = true ->
  exists ls, t_last_start t = Some ls /\
    (zero_at ls o -> (forall k, t_tick t = Some k -> (k <= 0)%Z) /\ (forall n, t_next_ts t = Some n -> (n <= T)%Z)).

Definition ZInv (T : Z) (s : st) : Prop := forall j, zt T (f_o (obj s j)) (f_t (obj s j)).

Definition zero_started (s : st) (id : nat) : Prop :=
  exists ls, t_last_start (f_t (obj s id)) = Some ls /\ zero_at ls (f_o (obj s id)).

Fixpoint last_time (T : Z) (ops : list op) : Z :=
  match ops with
  | [] => T
  | OpRead n :: r => last_time n r
  | _ :: r => last_time T r
  end.

Lemma zt_mono T T' o t : (T <= T')%Z -> zt T o t -> zt T' o t.
Proof.
  intros H Z Htr. destruct (Z Htr) as (ls & E & Hz). exists ls. split; [exact E|].
  intros Hzero. destruct (Hz Hzero) as [A B]. split; [exact A|]. intros n En. specialize (B n En). lia.
Qed.

Lemma zt_idle T o t : t_transferring t = false -> zt T o t.
Proof. intros H Htr. congruence. Qed.

Lemma zt_done T now o t : zt T o (t_done now t).
Proof. apply zt_idle. reflexivity. Qed.

Lemma zt_tick T o t : zt T o t -> zt T o (t_tickf t).
Proof.
  intros Z. unfold t_tickf. destruct (t_tick t) as [k|] eqn:Ek; [|exact Z].
  destruct (t_next_ts t) as [n|] eqn:En; [|exact Z].
  intros Htr. cbn [t_transferring] in Htr. destruct (Z Htr) as (ls & E & Hz).
  exists ls. cbn [t_last_start t_tick t_next_ts]. split; [exact E|].
  intros Hzero. destruct (Hz Hzero) as [A B]. split.
  - intros k' Ek'. apply A. congruence.
  - intros n' En'. inversion En'; subst n'. specialize (A k Ek). specialize (B n En). lia.
Qed.

Lemma zt_init divf now o t ti : divf_zero divf -> t_init divf o now t = Some ti -> zt now o ti.
Proof.
  intros Hd Hi _. exists now. unfold t_init, zero_at in *.
  destruct (o_target o) as [| |d|tm].
  - inversion Hi; subst. cbn. split; [reflexivity|]. intros [].
  - inversion Hi; subst. cbn. split; [reflexivity|]. intros [].
  - destruct (divf d (N.max 1 (o_nsrc o))) as [k|] eqn:Ed; inversion Hi; subst. cbn. split; [reflexivity|].
    intros ->. split.
    + intros k' Ek'. inversion Ek'; subst. eapply Hd; eauto.
    + intros n En. inversion En; subst. lia.
  - destruct (divf (Z.max 0 (tm - now)) (N.max 1 (o_nsrc o))) as [k|] eqn:Ed; inversion Hi; subst. cbn. split; [reflexivity|].
    intros Hle. replace (Z.max 0 (tm - now)) with 0%Z in Ed by lia. split.
    + intros k' Ek'. inversion Ek'; subst. eapply Hd; eauto.
    + intros n En. inversion En; subst. lia.
Qed.

Section Zero.
  Variable fdt_npk : N -> nat.
  Variable fdt_ok : N -> bool.
  Variable divf : Z -> N -> option Z.

  Notation sread := (sender_read fdt_npk fdt_ok divf).
  Notation mstep := (step fdt_npk fdt_ok divf).
  Notation publ := (publish fdt_npk fdt_ok).

  Lemma ZInv_OI T s : ZInv T s <-> OI (fun _ o _ => zt T o) 0 s.
  Proof. unfold ZInv, OI. split; [intros H; split; [lia|exact H]|intros [_ H]; exact H]. Qed.

  Lemma ZInv_mono T T' s : (T <= T')%Z -> ZInv T s -> ZInv T' s.
  Proof. intros H Z j. eapply zt_mono; eauto. Qed.

  Lemma ZInv_sread T now s o s' :
    divf_zero divf -> (T <= now)%Z -> ZInv T s -> sread now s = (o, s') -> ZInv now s'.
  Proof.
    intros Hd Hle Z H. apply ZInv_OI. apply (ZInv_mono T now s Hle) in Z. apply ZInv_OI in Z.
    eapply (OI_sread fdt_npk fdt_ok divf (fun _ o _ => zt now o) now 0); [| | | | |exact Z|exact H].
    - intros j o0 p t ti _ _ Hi. eapply zt_init; eauto.
    - intros j o0 p t _. apply zt_done.
    - intros j o0 p t. apply zt_tick.
    - intros j o0 p t Hz. exact Hz.
    - intros j o0 p _. apply zt_idle. reflexivity.
  Qed.

  Lemma ZInv_fields T s s' : objs s' = objs s -> ZInv T s -> ZInv T s'.
  Proof. intros E Z j. unfold obj. rewrite E. apply Z. Qed.

  (* operations other than a read keep the invariant as it is; a read at [now >= T] moves it to [now] *)
  Lemma ZInv_step T s o :
    divf_zero divf -> ZInv T s ->
    match o with
    | OpRead now => (T <= now)%Z -> ZInv now (snd (mstep s o))
    | _ => ZInv T (snd (mstep s o))
    end.
  Proof.
    intros Hd Z. destruct o as [od start acc|now|toi|toi ts| |now]; cbn [step].
    - destruct (negb (has_queue s (o_prio od))); [exact Z|].
      destruct (complete s); [exact Z|]. destruct acc; cbn [negb snd]; [|exact Z].
      intros j. unfold obj. cbn [objs set_queue set_files set_objs].
      destruct (Nat.lt_ge_cases j (length (objs s))) as [Hl|Hl].
      + rewrite app_nth1 by assumption. apply Z.
      + destruct (Nat.eq_dec j (length (objs s))) as [->|Hne].
        * rewrite app_nth2 by lia. rewrite Nat.sub_diag. cbn. apply zt_idle. reflexivity.
        * rewrite nth_overflow by (rewrite app_length; cbn; lia). apply zt_idle. reflexivity.
    - destruct (publ now s) as [ok s'] eqn:E. cbn [snd].
      replace s' with (snd (publ now s)) by (rewrite E; reflexivity).
      apply ZInv_OI. apply (OI_publish fdt_npk fdt_ok (fun _ o _ => zt T o) 0).
      + intros j o0 p t Hz. exact Hz.
      + intros j o0 p _. apply zt_idle. reflexivity.
      + apply ZInv_OI. exact Z.
    - destruct (is_added s toi); [|exact Z]. cbn [snd]. eapply ZInv_fields; [|exact Z]. reflexivity.
    - destruct (find_file s toi) as [id|]; [|exact Z].
      destruct (t_transferring (f_t (obj s id))) eqn:Etr; [exact Z|]. cbn [snd].
      apply ZInv_OI. apply OI_upd_at; [apply ZInv_OI; exact Z|]. intros _. apply zt_idle. exact Etr.
    - cbn [snd]. eapply ZInv_fields; [|exact Z]. reflexivity.
    - intros Hle. destruct (sread now s) as [r s'] eqn:E. cbn [snd]. eapply ZInv_sread; eauto.
  Qed.

  Lemma ZInv_run : forall ops T s,
    divf_zero divf -> ZInv T s -> mono_ops T ops ->
    ZInv (last_time T ops) (snd (run_ops fdt_npk fdt_ok divf s ops)).
  Proof.
    induction ops as [|o r IH]; intros T s Hd Z Hm; cbn [run_ops last_time]; [exact Z|].
    pose proof (ZInv_step T s o Hd Z) as Z1.
    destruct (mstep s o) as [x s1] eqn:E. cbn [snd] in Z1.
    assert (Hgoal : ZInv (last_time (match o with OpRead n => n | _ => T end) r)
                         (snd (run_ops fdt_npk fdt_ok divf s1 r))).
    { destruct o as [od start acc|now|toi|toi ts| |now]; cbn [mono_ops] in Hm;
        try (apply IH; assumption).
      destruct Hm as [Hle Hm]. apply IH; [exact Hd|exact (Z1 Hle)|exact Hm]. }
    destruct (run_ops fdt_npk fdt_ok divf s1 r) as [xs s2]. cbn [snd] in *.
    destruct o; exact Hgoal.
  Qed.

  Lemma ZInv_init T full dur car sid queues : ZInv T (init_st full dur car sid queues).
  Proof. intros j. unfold obj. cbn [objs init_st]. destruct j; apply zt_idle; reflexivity. Qed.

  (* never held back by pacing *)
  Lemma zero_not_paced T now s id :
    ZInv T s -> (T <= now)%Z -> t_transferring (f_t (obj s id)) = true -> zero_started s id ->
    paced now s id = false.
  Proof.
    intros Z Hle Htr (ls & E & Hz). destruct (Z id Htr) as (ls' & E' & H).
    assert (ls' = ls) by congruence. subst ls'. destruct (H Hz) as [_ B].
    unfold paced. destruct (t_next_ts (f_t (obj s id))) as [n|]; [|reflexivity].
    specialize (B n eq_refl). apply Z.ltb_ge. lia.
  Qed.

  Lemma unpaced_not_paced now L fs s id :
    INV L fs s -> unpaced_target (f_o (obj s id)) -> paced now s id = false.
  Proof.
    intros I U. pose proof (inv_obj _ _ _ I id) as H. unfold untimed, untimed' in H. unfold unpaced_target in U.
    unfold paced. destruct (o_target (f_o (obj s id))); try contradiction; destruct H as [-> _]; reflexivity.
  Qed.

  Lemma held_transferring L fs s ss id :
    INV L fs s -> In ss L -> ss_file ss = Some id -> t_transferring (f_t (obj s id)) = true.
  Proof.
    intros I Hss Hf. apply (own_slot_tr _ _ _ _ _ _ _ _ (inv_own _ _ _ I) id).
    change id with (fst (id, ss_prio ss)). apply in_map. apply slot_ids_in; assumption.
  Qed.

  (* G2 (b)(c): after a silent read no transmission slot holds an object that is never paced - an
     object without a target or as fast as possible, or a transfer whose tick is zero (target
     duration 0, deadline not after the start of the transfer) *)
  Theorem silent_read_no_unpaced_held T now s s' :
    PInv s -> divf_zero divf -> ZInv T s -> (T <= now)%Z -> sread now s = (RNothing, s') ->
    forall ss id, In ss (all_sessions (squeues s')) -> ss_file ss = Some id ->
      ~ unpaced_target (f_o (obj s' id)) /\ ~ zero_started s' id.
  Proof.
    intros P Hd Z Hle H ss id Hss Hf.
    pose proof (PInv_sread fdt_npk fdt_ok divf now s _ s' P H) as P'.
    pose proof (Inv_inv _ (q_inv _ (p_q _ P'))) as I'.
    destruct (silent_read_post fdt_npk fdt_ok divf now s s' P H) as (_ & _ & Hp).
    specialize (Hp ss id Hss Hf). split; intros Hc.
    - rewrite (unpaced_not_paced now _ _ s' id I' Hc) in Hp. discriminate.
    - rewrite (zero_not_paced now now s' id (ZInv_sread T now s _ s' Hd Hle Z H) (Z.le_refl _)
                 (held_transferring _ _ s' ss id I' Hss Hf) Hc) in Hp. discriminate.
  Qed.
End Zero.

(* ============================== part 5: what reads at one instant do to one object ============================== *)

(* the fields of the transfer state that eligibility ([should_transfer_now]) reads *)
Definition same_elig (a b : tinfo) : Prop :=
  t_transferring b = t_transferring a /\ t_count b = t_count a /\ t_total b = t_total a
  /\ t_last_end b = t_last_end a /\ t_last_start b = t_last_start a /\ t_start_time b = t_start_time a.

(* [a] before, [b] after some reads at [now]: the number of completed transfers never goes down;
   while it is the same, a transfer in progress is still the same transfer, and an object that was
   not in transmission is untouched or has been started at [now] *)
Definition trel (now : Z) (a b : tinfo) : Prop :=
  t_total a <= t_total b
  /\ (t_transferring a = true -> t_total b = t_total a -> t_transferring b = true /\ t_last_start b = t_last_start a)
  /\ (t_transferring a = false -> t_total b = t_total a ->
        (t_transferring b = false /\ same_elig a b) \/ (t_transferring b = true /\ t_last_start b = Some now)).

Lemma same_elig_refl a : same_elig a a.
Proof. repeat split. Qed.

Lemma trel_refl now a : trel now a a.
Proof.
  split; [lia|]. split; [auto|]. intros H _. left. split; [exact H|apply same_elig_refl].
Qed.

Lemma trel_init divf now o a t ti :
  trel now a t -> t_transferring t = false -> t_init divf o now t = Some ti -> trel now a ti.
Proof.
  intros (A & B & C) Hn Hi.
  assert (E : t_total ti = t_total t /\ t_transferring ti = true /\ t_last_start ti = Some now).
  { unfold t_init in Hi.
    destruct (match o_target o with
              | TNone | TFast => Some None
              | TDuration d => match divf d (N.max 1 (o_nsrc o)) with Some k => Some (Some k) | None => None end
              | TTime tm => match divf (Z.max 0 (tm - now)) (N.max 1 (o_nsrc o)) with Some k => Some (Some k) | None => None end
              end) as [tk|]; [|discriminate].
    inversion Hi; subst. cbn. auto. }
  destruct E as (E1 & E2 & E3). split; [rewrite E1; exact A|]. split.
  - intros Ha Ht. rewrite E1 in Ht. destruct (B Ha Ht) as [B1 _]. congruence.
  - intros Ha Ht. right. auto.
Qed.

Lemma trel_done now a t : trel now a t -> trel now a (t_done now t).
Proof.
  intros (A & B & C). unfold trel, t_done. cbn [t_total t_transferring t_last_start].
  split; [lia|]. split; intros _ Ht; exfalso; lia.
Qed.

Lemma trel_tick now a t : trel now a t -> trel now a (t_tickf t).
Proof.
  intros H. unfold t_tickf. destruct (t_tick t); [|exact H]. destruct (t_next_ts t); [|exact H].
  destruct H as (A & B & C). split; [exact A|]. split; [exact B|].
  intros Ha Ht. destruct (C Ha Ht) as [[C1 C2]|C1]; [left|right; exact C1].
  split; [exact C1|]. exact C2.
Qed.

Section Track.
  Variable fdt_npk : N -> nat.
  Variable fdt_ok : N -> bool.
  Variable divf : Z -> N -> option Z.

  Notation srun := (session_run fdt_npk fdt_ok divf).
  Notation gnft := (get_next_file_transfer fdt_npk fdt_ok divf).
  Notation rqs := (read_queues fdt_npk fdt_ok divf).
  Notation sread := (sender_read fdt_npk fdt_ok divf).
  Notation runfdt := (run_fdt_session fdt_npk fdt_ok divf).
  Notation file_run := (file_run fdt_npk fdt_ok divf).
  Notation fresh_run := (fresh_run fdt_npk fdt_ok divf).
  Notation vstep := (vstep fdt_npk fdt_ok divf).
  Notation qpath := (qpath fdt_npk fdt_ok divf).
  Notation read_n := (read_n fdt_npk fdt_ok divf).

  (* the objects of [s0], seen from a later state: same description, transfer state related *)
  Definition TR (now : Z) (s0 : st) : nat -> odesc -> bool -> tinfo -> Prop :=
    fun j o p t => (j < length (objs s0))%nat ->
      o = f_o (obj s0 j) /\ (f_pub (obj s0 j) = true -> p = true) /\ trel now (f_t (obj s0 j)) t.

  Definition Later (now : Z) (s0 t : st) : Prop := OI (TR now s0) (length (objs s0)) t.

  Lemma Later_refl now s : Later now s s.
  Proof. split; [lia|]. intros j _. split; [reflexivity|]. split; [auto|apply trel_refl]. Qed.

  Lemma TR_init now s0 j o p t ti :
    TR now s0 j o p t -> t_transferring t = false -> t_init divf o now t = Some ti -> TR now s0 j o p ti.
  Proof. intros H Hn Hi Hj. destruct (H Hj) as (E & Pb & Rl). split; [exact E|]. split; [exact Pb|eapply trel_init; eauto]. Qed.
  Lemma TR_done now s0 j o p t : TR now s0 j o p t -> TR now s0 j o p (t_done now t).
  Proof. intros H Hj. destruct (H Hj) as (E & Pb & Rl). split; [exact E|]. split; [exact Pb|apply trel_done; exact Rl]. Qed.
  Lemma TR_tick now s0 j o p t : TR now s0 j o p t -> TR now s0 j o p (t_tickf t).
  Proof. intros H Hj. destruct (H Hj) as (E & Pb & Rl). split; [exact E|]. split; [exact Pb|apply trel_tick; exact Rl]. Qed.
  Lemma TR_pub now s0 j o p t : TR now s0 j o p t -> TR now s0 j o true t.
  Proof. intros H Hj. destruct (H Hj) as (E & Pb & Rl). split; [exact E|]. split; [auto|exact Rl]. Qed.
  Lemma TR_fresh now s0 j o p : (length (objs s0) <= j)%nat -> TR now s0 j o p dummy_t.
  Proof. intros H Hj. lia. Qed.

  Lemma Later_srun now s0 fuel ss t o ss' t' : Later now s0 t -> srun fuel ss now t = (o, ss', t') -> Later now s0 t'.
  Proof.
    apply (OI_srun fdt_npk fdt_ok divf (TR now s0) now (length (objs s0))
             (TR_init now s0) (TR_done now s0) (TR_tick now s0) (TR_pub now s0) (TR_fresh now s0)).
  Qed.

  Lemma Later_runfdt now s0 s o s1 : Later now s0 s -> runfdt now s = (o, s1) -> Later now s0 s1.
  Proof.
    apply (OI_runfdt fdt_npk fdt_ok divf (TR now s0) now (length (objs s0))
             (TR_init now s0) (TR_done now s0) (TR_tick now s0) (TR_pub now s0) (TR_fresh now s0)).
  Qed.

  Lemma Later_sread now s0 s o s' : Later now s0 s -> sread now s = (o, s') -> Later now s0 s'.
  Proof.
    apply (OI_sread fdt_npk fdt_ok divf (TR now s0) now (length (objs s0))
             (TR_init now s0) (TR_done now s0) (TR_tick now s0) (TR_pub now s0) (TR_fresh now s0)).
  Qed.

  Lemma Later_read_n now s0 : forall k s, Later now s0 s -> Later now s0 (snd (read_n now k s)).
  Proof.
    induction k as [|k IH]; intros s H; cbn [read_n]; [exact H|].
    destruct (sread now s) as [o s1] eqn:E. pose proof (Later_sread now s0 s o s1 H E) as H1.
    specialize (IH s1 H1). destruct (read_n now k s1) as [os s2]. exact IH.
  Qed.

  Lemma Later_obj now s0 t j : Later now s0 t -> (j < length (objs s0))%nat ->
    f_o (obj t j) = f_o (obj s0 j) /\ (f_pub (obj s0 j) = true -> f_pub (obj t j) = true)
    /\ trel now (f_t (obj s0 j)) (f_t (obj t j)).
  Proof. intros [_ H] Hj. exact (H j Hj). Qed.
End Track.

(* ============================== part 6: a never-paced object goes through at one instant ============================== *)

Section Complete.
  Variable fdt_npk : N -> nat.
  Variable fdt_ok : N -> bool.
  Variable divf : Z -> N -> option Z.

  Notation srun := (session_run fdt_npk fdt_ok divf).
  Notation gnft := (get_next_file_transfer fdt_npk fdt_ok divf).
  Notation rqs := (read_queues fdt_npk fdt_ok divf).
  Notation sread := (sender_read fdt_npk fdt_ok divf).
  Notation runfdt := (run_fdt_session fdt_npk fdt_ok divf).
  Notation file_run := (file_run fdt_npk fdt_ok divf).
  Notation fresh_run := (fresh_run fdt_npk fdt_ok divf).
  Notation vstep := (vstep fdt_npk fdt_ok divf).
  Notation qpath := (qpath fdt_npk fdt_ok divf).
  Notation read_n := (read_n fdt_npk fdt_ok divf).
  Notation MUs := (MUs fdt_npk).
  Notation Later := (Later).

  Definition trf (t : st) (id : nat) : bool := t_transferring (f_t (obj t id)).

  (* ---------- a waiting object stays in the waiting list until it is started ---------- *)
  Lemma start_keep L fs prio now t id1 t1 id :
    INV L fs t -> gnft prio now t = ROk _ (Some id1, t1) -> In id (queue t) ->
    In id (queue t1) \/ trf t1 id = true.
  Proof.
    intros I G Hin.
    destruct (start_facts fdt_npk fdt_ok divf _ _ _ _ _ G) as (a & r & ti & Hq & Hq1 & _ & _ & _ & _ & Hi & _ & Ho & _).
    destruct (Nat.eq_dec id id1) as [->|Hne].
    - right. assert (Hl : (id1 < length (objs t))%nat).
      { apply (own_bound _ _ _ _ _ _ _ _ (inv_own _ _ _ I)). apply in_or_app. right. exact Hin. }
      destruct (Ho id1 Hl) as [_ Et]. rewrite Nat.eqb_refl in Et. unfold trf. rewrite Et.
      apply (init_not_paced divf _ _ _ _ Hi (inv_obj _ _ _ I id1)).
    - left. rewrite Hq1. rewrite Hq in Hin. apply in_app_or in Hin. apply in_or_app.
      destruct Hin as [Hin|[Hin|Hin]]; auto. congruence.
  Qed.

  Lemma fresh_run_keep L1 ss0 L2 fs now t o ss' t' id :
    INV (L1 ++ ss0 :: L2) fs t -> fresh_run now ss0 t o ss' t' -> In id (queue t) ->
    In id (queue t') \/ trf t' id = true.
  Proof.
    intros I R Hin. destruct R as [G|G|id1 t1 G Hw|id1 t1 c e' G Hq Hp Er]; auto.
    - eapply start_keep; eauto.
    - destruct (start_keep _ _ _ _ _ _ _ id I G Hin) as [H|H]; [left; exact H|right].
      unfold trf in *. destruct (obj_upd_t_t_cases t1 id1 t_tickf id) as [E|(-> & _ & E)]; rewrite E; [exact H|].
      rewrite transferring_tick. exact H.
  Qed.

  Lemma file_run_keep L1 ss L2 fs now t o ss' t' id :
    INV (L1 ++ ss :: L2) fs t -> file_run now ss t o ss' t' -> In id (queue t) ->
    In id (queue t') \/ trf t' id = true.
  Proof.
    intros I R Hin.
    destruct R as [id0 e Hf He Hw|e He Hf|id0 e c e' Hf He Hq Hp Er|o ss' t' He R|id0 e e' o ss' t' Hf He Hq Hp Er R]; auto.
    - eapply fresh_run_keep; eauto.
    - eapply (fresh_run_keep L1 (empty_of ss) L2); [apply inv_transfer_done; eassumption|exact R|].
      destruct (td_queue id0 now t) as [E|E]; rewrite E; [exact Hin|apply in_or_app; left; exact Hin].
  Qed.

  (* ---------- where object [id] of [s0] is, in a later state ---------- *)
  Definition Kp (s0 : st) (id : nat) (t : st) : Prop :=
    In id (queue t) \/ trf t id = true \/ t_total (f_t (obj s0 id)) < t_total (f_t (obj t id)).

  Lemma K_move now s0 id t t' :
    (id < length (objs s0))%nat -> Later now s0 t -> Later now t t' ->
    (In id (queue t) -> In id (queue t') \/ trf t' id = true) ->
    Kp s0 id t -> Kp s0 id t'.
  Proof.
    intros Hl L0 L1 Hq K.
    assert (Hlt : (id < length (objs t))%nat) by (destruct L0 as [A _]; lia).
    destruct (Later_obj now s0 t id L0 Hl) as (_ & _ & (T0 & _)).
    destruct (Later_obj now t t' id L1 Hlt) as (_ & _ & (T1 & T2 & _)).
    destruct K as [K|[K|K]].
    - destruct (Hq K) as [H|H]; [left; exact H|right; left; exact H].
    - destruct (N.eq_dec (t_total (f_t (obj t' id))) (t_total (f_t (obj t id)))) as [E|E].
      + right. left. apply (T2 K E).
      + right. right. lia.
    - right. right. lia.
  Qed.

  Lemma K_vstep now s0 id L fs t ss o L' t' :
    (id < length (objs s0))%nat -> INV L fs t -> Later now s0 t -> vstep now L t ss o L' t' ->
    Kp s0 id t -> Kp s0 id t'.
  Proof.
    intros Hl I L0 V. destruct V as [L1 ss L2 t o ss' t' H].
    apply (K_move now s0 id t t' Hl L0).
    - eapply Later_srun; [apply Later_refl|exact H].
    - destruct (Lwf_mid _ _ _ (inv_L _ _ _ I)) as (A1 & _).
      apply file_run_inv in H; [|assumption]. intros Hin. eapply file_run_keep; eauto.
  Qed.

  Lemma Later_vstep now s0 L t ss o L' t' : Later now s0 t -> vstep now L t ss o L' t' -> Later now s0 t'.
  Proof. intros L0 V. destruct V as [L1 ss L2 t o ss' t' H]. eapply Later_srun; eauto. Qed.

  Lemma K_qpath now s0 id L fs t L' t' :
    (id < length (objs s0))%nat -> INV L fs t -> Later now s0 t -> qpath now L t L' t' ->
    Kp s0 id t -> Kp s0 id t' /\ Later now s0 t'.
  Proof.
    intros Hl I L0 Pq. revert I L0. induction Pq as [|L t ss L1 t1 L2 t2 V Pq IH]; intros I L0 K; [auto|].
    apply IH.
    - eapply inv_vstep; eauto.
    - eapply Later_vstep; eauto.
    - eapply K_vstep; eauto.
  Qed.

  Lemma K_runfdt now s0 id s o s1 :
    (id < length (objs s0))%nat -> Inv s -> Later now s0 s -> runfdt now s = (o, s1) ->
    Kp s0 id s -> Kp s0 id s1.
  Proof.
    intros Hl IS L0 H.
    destruct (Inv_runfdt fdt_npk fdt_ok divf now s o s1 IS H) as (_ & F1 & _).
    apply (K_move now s0 id s s1 Hl L0).
    - eapply Later_runfdt; [apply Later_refl|exact H].
    - intros Hin. left. rewrite (fr_queue _ _ _ F1). exact Hin.
  Qed.

  Lemma K_sread now s0 id s o s' :
    (id < length (objs s0))%nat -> Inv s -> Later now s0 s -> sread now s = (o, s') ->
    Kp s0 id s -> Kp s0 id s'.
  Proof.
    intros Hl IS L0 H K. unfold sender_read in H.
    destruct (runfdt now s) as [o1 s1] eqn:E1.
    pose proof (K_runfdt now s0 id s o1 s1 Hl IS L0 E1 K) as K1.
    pose proof (Later_runfdt fdt_npk fdt_ok divf now s0 s o1 s1 L0 E1) as L1.
    destruct (Inv_runfdt fdt_npk fdt_ok divf now s o1 s1 IS E1) as (IS1 & _ & _).
    destruct o1; try (inversion H; subst; exact K1).
    destruct (rqs [] (squeues s1) now s1) as [[o2 qs] s2] eqn:E2.
    destruct (Inv_after_queues fdt_npk fdt_ok divf now s1 o2 qs s2 IS1 E2) as (IS3 & _).
    destruct (read_queues_path fdt_npk fdt_ok divf now _ _ _ _ _ _ (Forall_nil _) (Inv_wfq _ IS1) E2) as (_ & _ & (Lm & tm & Pm & Rm)).
    cbn [app] in Pm.
    destruct (K_qpath now s0 id _ _ _ _ _ Hl (Inv_inv _ IS1) L1 Pm K1) as [Km Lmm].
    assert (K2 : Kp s0 id s2 /\ Later now s0 s2).
    { destruct Rm as [(_ & _ & ->)|(_ & x & _ & Vx)]; [auto|]. split.
      - eapply K_vstep; [exact Hl|eapply inv_qpath; [exact (Inv_inv _ IS1)|exact Pm]|exact Lmm|exact Vx|exact Km].
      - eapply Later_vstep; eauto. }
    destruct K2 as [K2 L2].
    assert (K3 : Kp s0 id (set_squeues s2 qs)) by exact K2.
    assert (L3 : Later now s0 (set_squeues s2 qs)) by exact L2.
    destruct o2; try (inversion H; subst; exact K3).
    eapply K_runfdt; eauto.
  Qed.

  Lemma PInv_read_n now : forall k s, PInv s -> PInv (snd (read_n now k s)).
  Proof.
    induction k as [|k IH]; intros s P; cbn [read_n]; [exact P|].
    destruct (sread now s) as [o s1] eqn:E.
    pose proof (PInv_sread fdt_npk fdt_ok divf now s o s1 P E) as P1.
    specialize (IH s1 P1). destruct (read_n now k s1) as [os s2]. exact IH.
  Qed.

  Lemma K_read_n now s0 id : forall k s,
    (id < length (objs s0))%nat -> PInv s -> Later now s0 s -> Kp s0 id s -> Kp s0 id (snd (read_n now k s)).
  Proof.
    induction k as [|k IH]; intros s Hl P L0 K; cbn [read_n]; [exact K|].
    destruct (sread now s) as [o s1] eqn:E.
    pose proof (PInv_sread fdt_npk fdt_ok divf now s o s1 P E) as P1.
    pose proof (Later_sread fdt_npk fdt_ok divf now s0 s o s1 L0 E) as L1.
    pose proof (K_sread now s0 id s o s1 Hl (q_inv _ (p_q _ P)) L0 E K) as K1.
    specialize (IH s1 Hl P1 L1 K1). destruct (read_n now k s1) as [os s2]. exact IH.
  Qed.

  (* ---------- the publish mode is a constant of the session ---------- *)
  Lemma full_srun now fuel ss t o ss' t' : srun fuel ss now t = (o, ss', t') -> full_fdt t' = full_fdt t.
  Proof. intros H. apply srun_static in H. unfold static in H. congruence. Qed.

  Lemma full_rrl now : forall n q orig t o q' t',
    rr_loop fdt_npk fdt_ok divf n q orig now t = (o, q', t') -> full_fdt t' = full_fdt t.
  Proof.
    induction n as [|n IH]; intros q orig t o q' t' H; cbn [rr_loop] in H.
    { inversion H; subst. reflexivity. }
    destruct (nth_error (q_sessions q) (q_index q)) as [ss|]; [|inversion H; subst; reflexivity].
    destruct (srun 4 ss now t) as [[o1 ss1] t1] eqn:Er.
    pose proof (full_srun _ _ _ _ _ _ _ Er) as H1.
    destruct o1; try (inversion H; subst; exact H1).
    destruct (Nat.eqb _ orig); [inversion H; subst; exact H1|]. rewrite <- H1. eapply IH; eauto.
  Qed.

  Lemma full_rqs now : forall todo done t o qs t', rqs done todo now t = (o, qs, t') -> full_fdt t' = full_fdt t.
  Proof.
    induction todo as [|q r IH]; intros done t o qs t' H; cbn [read_queues] in H.
    { inversion H; subst. reflexivity. }
    destruct (read_priority_queue fdt_npk fdt_ok divf q now t) as [[o1 q1] t1] eqn:E. unfold read_priority_queue in E.
    pose proof (full_rrl _ _ _ _ _ _ _ _ E) as H1.
    destruct o1; try (inversion H; subst; exact H1). rewrite <- H1. eapply IH; eauto.
  Qed.

  Lemma full_runfdt now s o s1 : runfdt now s = (o, s1) -> full_fdt s1 = full_fdt s.
  Proof. intros H. apply runfdt_spec in H. destruct H as (fs' & t' & H & ->). exact (full_srun _ _ _ _ _ _ _ H). Qed.

  Lemma full_sread now s o s' : sread now s = (o, s') -> full_fdt s' = full_fdt s.
  Proof.
    intros H. unfold sender_read in H.
    destruct (runfdt now s) as [o1 s1] eqn:E1. pose proof (full_runfdt _ _ _ _ E1) as H1.
    destruct o1; try (inversion H; subst; exact H1).
    destruct (rqs [] (squeues s1) now s1) as [[o2 qs] s2] eqn:E2. pose proof (full_rqs _ _ _ _ _ _ _ E2) as H2.
    destruct o2; try (inversion H; subst; cbn [full_fdt set_squeues]; congruence).
    apply full_runfdt in H. cbn [full_fdt set_squeues] in H. congruence.
  Qed.

  Lemma full_read_n now : forall k s, full_fdt (snd (read_n now k s)) = full_fdt s.
  Proof.
    induction k as [|k IH]; intros s; cbn [read_n]; [reflexivity|].
    destruct (sread now s) as [o s1] eqn:E. specialize (IH s1).
    destruct (read_n now k s1) as [os s2]. cbn [snd] in *. rewrite IH. eapply full_sread; eauto.
  Qed.

  Lemma ZInv_read_n now : forall k T s,
    divf_zero divf -> (T <= now)%Z -> ZInv T s -> ZInv now (snd (read_n now k s)).
  Proof.
    induction k as [|k IH]; intros T s Hd Hle Z; cbn [read_n]; [eapply ZInv_mono; eauto|].
    destruct (sread now s) as [o s1] eqn:E.
    pose proof (ZInv_sread fdt_npk fdt_ok divf T now s o s1 Hd Hle Z E) as Z1.
    specialize (IH now s1 Hd (Z.le_refl _) Z1).
    destruct (read_n now k s1) as [os s2]. exact IH.
  Qed.

  (* ---------- the reads at one instant, up to silence ---------- *)
  Lemma quiesce_state now s :
    PInv s -> divf_total divf ->
    exists n s1, (n <= MUs now s)%nat
      /\ Forall (fun o => is_pkt o = true) (fst (read_n now n s))
      /\ sread now (snd (read_n now n s)) = (RNothing, s1)
      /\ sread now s1 = (RNothing, s1).
  Proof.
    intros P Hd. destruct (quiescence fdt_npk fdt_ok divf now s (p_q _ P)) as (n & Hn & Hall & Hend).
    cbv zeta in Hend. pose proof (PInv_read_n now n s P) as Pn.
    destruct (sread now (snd (read_n now n s))) as [o s1] eqn:E.
    destruct Hend as [Ho _].
    assert (o = RNothing).
    { destruct Ho as [->| ->]; [reflexivity|].
      exfalso. eapply (read_no_panic fdt_npk fdt_ok divf now _ _ _ Hd (q_inv _ (p_q _ Pn)) E). reflexivity. }
    subst o. exists n, s1. split; [exact Hn|]. split; [exact Hall|]. split; [exact E|].
    eapply read_idem; [exact (p_q _ Pn)|exact E].
  Qed.

  (* after a silent read a never-paced object is not in transmission *)
  Lemma silent_no_unpaced_transfer now sn s1 id :
    PInv sn -> sread now sn = (RNothing, s1) -> ZInv now s1 ->
    (id < length (objs s1))%nat -> toi_of s1 id <> 0 -> trf s1 id = true ->
    unpaced_target (f_o (obj s1 id)) \/ zero_started s1 id -> False.
  Proof.
    intros Pn E Z1 Hl Hz Htr Hu.
    pose proof (PInv_sread fdt_npk fdt_ok divf now sn _ s1 Pn E) as P1.
    pose proof (Inv_inv _ (q_inv _ (p_q _ P1))) as I1. pose proof (inv_own _ _ _ I1) as O1.
    destruct (silent_read_post fdt_npk fdt_ok divf now sn s1 Pn E) as (_ & _ & Hp).
    destruct (own_tr _ _ _ _ _ _ _ _ O1 id Hl Htr) as [Hs|Hs].
    - apply in_slot_ids in Hs. destruct Hs as (ss1 & Hss1 & Hf1).
      specialize (Hp ss1 id Hss1 Hf1). destruct Hu as [Hu|Hu].
      + rewrite (unpaced_not_paced now _ _ s1 id I1 Hu) in Hp. discriminate.
      + rewrite (zero_not_paced now now s1 id Z1 (Z.le_refl _) Htr Hu) in Hp. discriminate.
    - assert (Hin : In id (Dq s1 ++ opt_list (ss_file (fdt_session s1)))).
      { rewrite Hs. apply in_or_app. right. left. reflexivity. }
      destruct (own_fdt _ _ _ _ _ _ _ _ O1 id Hin) as (_ & [_ H0] & _). apply Hz. exact H0.
  Qed.

  (* G2, held object.  An object that holds a slot and is never paced (no target, as fast as
     possible, or a transfer whose tick is zero): the reads at this instant return packets, at most
     the potential [MUs] of them, then a read returns nothing, and by then a whole transfer of the
     object has ended (its count of completed transfers has gone up). *)
  Theorem unpaced_held_completes now T s ss id :
    PInv s -> divf_total divf -> divf_zero divf -> ZInv T s -> (T <= now)%Z ->
    In ss (all_sessions (squeues s)) -> ss_file ss = Some id ->
    unpaced_target (f_o (obj s id)) \/ zero_started s id ->
    exists n s1, (n <= MUs now s)%nat
      /\ Forall (fun o => is_pkt o = true) (fst (read_n now n s))
      /\ sread now (snd (read_n now n s)) = (RNothing, s1)
      /\ t_total (f_t (obj s id)) < t_total (f_t (obj s1 id)).
  Proof.
    intros P Hd Hz Z Hle Hss Hf Hu.
    destruct (quiesce_state now s P Hd) as (n & s1 & Hn & Hall & E & _).
    exists n, s1. split; [exact Hn|]. split; [exact Hall|]. split; [exact E|].
    pose proof (PInv_read_n now n s P) as Pn.
    pose proof (Inv_inv _ (q_inv _ (p_q _ P))) as I0.
    assert (Hlive : In id (live (all_sessions (squeues s)) s)).
    { apply in_or_app. left. eapply in_slot_ids_of; eauto. }
    assert (Hl : (id < length (objs s))%nat) by (apply (own_bound _ _ _ _ _ _ _ _ (inv_own _ _ _ I0)); exact Hlive).
    pose proof (Later_sread fdt_npk fdt_ok divf now s _ _ s1 (Later_read_n fdt_npk fdt_ok divf now s n s (Later_refl now s)) E) as L1.
    destruct (Later_obj now s s1 id L1 Hl) as (Efo & _ & (T1 & T2 & _)).
    pose proof (held_transferring _ _ s ss id I0 Hss Hf) as Htr.
    destruct (N.eq_dec (t_total (f_t (obj s1 id))) (t_total (f_t (obj s id)))) as [Eq|Ne]; [exfalso|lia].
    destruct (T2 Htr Eq) as [Htr1 Els].
    apply (silent_no_unpaced_transfer now _ s1 id Pn E).
    - eapply ZInv_sread; [exact Hz|apply Z.le_refl| |exact E]. apply (ZInv_read_n now n T s Hz Hle Z).
    - destruct L1 as [A _]. lia.
    - unfold toi_of. rewrite Efo. apply (q_nz _ (p_q _ P) id Hlive).
    - exact Htr1.
    - destruct Hu as [Hu|(ls & E1 & E2)]; [left; rewrite Efo; exact Hu|right].
      exists ls. rewrite Els, Efo. auto.
  Qed.

  Lemma stn_same_elig f g prio full now :
    f_o g = f_o f -> same_elig (f_t f) (f_t g) -> (f_pub f = true -> f_pub g = true) ->
    should_transfer_now f prio full now = true -> should_transfer_now g prio full now = true.
  Proof.
    intros Eo (E1 & E2 & E3 & E4 & E5 & E6) Ep. unfold should_transfer_now.
    rewrite Eo, E1, E2, E4, E5, E6.
    destruct (negb (o_prio (f_o f) =? prio)); [auto|].
    destruct full; cbn [andb]; [|auto].
    destruct (f_pub f); cbn [negb]; [rewrite Ep by reflexivity; auto|discriminate].
  Qed.

  (* G2, waiting object.  An object that waits, may start now (the model's own eligibility) and
     will never be paced (no target, as fast as possible, target duration 0, deadline not after
     now): the reads at this instant return packets, at most [MUs] of them, then nothing, and by
     then either a whole transfer of the object has ended, or the object still waits, may still
     start, and every slot of its queue is held by an object that is paced into the future. *)
  Theorem unpaced_waiting_completes now T s q id :
    PInv s -> divf_total divf -> divf_zero divf -> ZInv T s -> (T <= now)%Z ->
    In q (squeues s) -> In id (queue s) ->
    should_transfer_now (obj s id) (q_prio q) (full_fdt s) now = true ->
    unpaced_target (f_o (obj s id)) \/ zero_at now (f_o (obj s id)) ->
    exists n s1, (n <= MUs now s)%nat
      /\ Forall (fun o => is_pkt o = true) (fst (read_n now n s))
      /\ sread now (snd (read_n now n s)) = (RNothing, s1)
      /\ (t_total (f_t (obj s id)) < t_total (f_t (obj s1 id))
          \/ (In id (queue s1)
              /\ should_transfer_now (obj s1 id) (q_prio q) (full_fdt s1) now = true
              /\ forall q1 ss, In q1 (squeues s1) -> q_prio q1 = q_prio q -> In ss (q_sessions q1) ->
                   exists id' e, ss_file ss = Some id' /\ ss_enc ss = Some e /\ paced now s1 id' = true)).
  Proof.
    intros P Hd Hz Z Hle Hq Hin Hs Hu.
    destruct (quiesce_state now s P Hd) as (n & s1 & Hn & Hall & E & Eid).
    exists n, s1. split; [exact Hn|]. split; [exact Hall|]. split; [exact E|].
    pose proof (PInv_read_n now n s P) as Pn.
    pose proof (PInv_sread fdt_npk fdt_ok divf now _ _ s1 Pn E) as P1.
    pose proof (Inv_inv _ (q_inv _ (p_q _ P))) as I0.
    assert (Hlive : In id (live (all_sessions (squeues s)) s)) by (apply in_or_app; right; exact Hin).
    assert (Hl : (id < length (objs s))%nat) by (apply (own_bound _ _ _ _ _ _ _ _ (inv_own _ _ _ I0)); exact Hlive).
    pose proof (Later_read_n fdt_npk fdt_ok divf now s n s (Later_refl now s)) as Ln.
    pose proof (Later_sread fdt_npk fdt_ok divf now s _ _ s1 Ln E) as L1.
    assert (K1 : Kp s id s1).
    { eapply K_sread; [exact Hl|exact (q_inv _ (p_q _ Pn))|exact Ln|exact E|].
      apply K_read_n; [exact Hl|exact P|apply Later_refl|left; exact Hin]. }
    destruct (Later_obj now s s1 id L1 Hl) as (Efo & Epub & (T1 & _ & T3)).
    pose proof (stn_not_transferring _ _ _ _ Hs) as Hntr.
    destruct (N.eq_dec (t_total (f_t (obj s1 id))) (t_total (f_t (obj s id)))) as [Eq|Ne]; [|left; lia].
    right.
    assert (Z1 : ZInv now s1).
    { eapply ZInv_sread; [exact Hz|apply Z.le_refl| |exact E]. apply (ZInv_read_n now n T s Hz Hle Z). }
    assert (Hl1 : (id < length (objs s1))%nat) by (destruct L1 as [A _]; lia).
    assert (Hnz : toi_of s1 id <> 0) by (unfold toi_of; rewrite Efo; apply (q_nz _ (p_q _ P) id Hlive)).
    destruct (T3 Hntr Eq) as [[Hntr1 Hse]|[Htr1 Els]].
    2:{ exfalso. apply (silent_no_unpaced_transfer now _ s1 id Pn E Z1 Hl1 Hnz Htr1).
        destruct Hu as [Hu|Hu]; [left; rewrite Efo; exact Hu|right]. exists now. rewrite Efo. auto. }
    assert (Hin1 : In id (queue s1)).
    { destruct K1 as [K1|[K1|K1]]; [exact K1| |].
      - unfold trf in K1. congruence.
      - exfalso. rewrite Eq in K1. apply (N.lt_irrefl _ K1). }
    assert (Efull : full_fdt s1 = full_fdt s).
    { rewrite (full_sread _ _ _ _ E). apply full_read_n. }
    assert (Hs1 : should_transfer_now (obj s1 id) (q_prio q) (full_fdt s1) now = true).
    { rewrite Efull. eapply stn_same_elig; [exact Efo|exact Hse|exact Epub|exact Hs]. }
    split; [exact Hin1|]. split; [exact Hs1|].
    intros q1 ss Hq1 Ep Hss.
    destruct (silent_read_objects fdt_npk fdt_ok divf now s1 s1 P1 Eid) as [_ Hb].
    apply (Hb q1 id Hq1 Hin1); [rewrite Ep; exact Hs1|exact Hss].
  Qed.
End Complete.

(* ============================== part 7: the due packet of a slot goes out ============================== *)

Section Due.
  Variable fdt_npk : N -> nat.
  Variable fdt_ok : N -> bool.
  Variable divf : Z -> N -> option Z.

  Notation srun := (session_run fdt_npk fdt_ok divf).
  Notation gnft := (get_next_file_transfer fdt_npk fdt_ok divf).
  Notation rqs := (read_queues fdt_npk fdt_ok divf).
  Notation sread := (sender_read fdt_npk fdt_ok divf).
  Notation runfdt := (run_fdt_session fdt_npk fdt_ok divf).
  Notation file_run := (file_run fdt_npk fdt_ok divf).
  Notation fresh_run := (fresh_run fdt_npk fdt_ok divf).
  Notation vstep := (vstep fdt_npk fdt_ok divf).
  Notation qpath := (qpath fdt_npk fdt_ok divf).
  Notation read_n := (read_n fdt_npk fdt_ok divf).
  Notation MUs := (MUs fdt_npk).

  (* a visit of one session leaves the objects of the other slots alone *)
  Lemma fresh_run_others L1 y0 L2 fs now t o y' t' :
    INV (L1 ++ y0 :: L2) fs t -> ss_enc y0 = None -> fresh_run now y0 t o y' t' ->
    forall j, In j (slot_ids (L1 ++ L2)) -> f_t (obj t' j) = f_t (obj t j).
  Proof.
    intros I He R j Hj.
    destruct (Lwf_mid _ _ _ (inv_L _ _ _ I)) as (_ & A2 & _). pose proof (A2 He) as Hfn.
    assert (Hjs : In j (slot_ids (L1 ++ y0 :: L2))).
    { rewrite slot_ids_mid, Hfn. cbn [opt_list app]. unfold slot_ids in *. rewrite slot_pairs_app, map_app in Hj. exact Hj. }
    assert (Hjl : (j < length (objs t))%nat).
    { apply (own_bound _ _ _ _ _ _ _ _ (inv_own _ _ _ I)). apply in_or_app. left. exact Hjs. }
    assert (Hstart : forall id1 t1, gnft (ss_prio y0) now t = ROk _ (Some id1, t1) ->
              f_t (obj t1 j) = f_t (obj t j) /\ j <> id1).
    { intros id1 t1 G.
      destruct (start_facts fdt_npk fdt_ok divf _ _ _ _ _ G) as (a & r & ti & Hq & _ & _ & _ & _ & _ & _ & _ & Ho & _).
      destruct (queue_sep _ _ _ _ _ _ I Hq) as (N0 & _).
      assert (Hne : j <> id1) by (intros ->; contradiction).
      destruct (Ho j Hjl) as (_ & Et). apply Nat.eqb_neq in Hne. rewrite Hne in Et. split; [exact Et|].
      apply Nat.eqb_neq. exact Hne. }
    destruct R as [G|G|id1 t1 G Hw|id1 t1 c e' G Hq Hp Er]; try reflexivity.
    - apply (Hstart id1 t1 G).
    - destruct (Hstart id1 t1 G) as [Et Hne]. rewrite obj_upd_t_other by congruence. exact Et.
  Qed.

  Lemma file_run_others L1 y L2 fs now t o y' t' :
    INV (L1 ++ y :: L2) fs t -> file_run now y t o y' t' ->
    forall j, In j (slot_ids (L1 ++ L2)) -> f_t (obj t' j) = f_t (obj t j).
  Proof.
    intros I R j Hj.
    assert (Hsep : forall id0, ss_file y = Some id0 -> j <> id0).
    { intros id0 Hf ->. destruct (slot_sep _ _ _ _ _ _ I Hf) as (N1 & N2 & _).
      unfold slot_ids in *. rewrite slot_pairs_app, map_app in Hj. apply in_app_or in Hj. tauto. }
    destruct R as [id0 e Hf He Hw|e He Hf|id0 e c e' Hf He Hq Hp Er|o y' t' He R|id0 e e' o y' t' Hf He Hq Hp Er R];
      try reflexivity.
    - rewrite obj_upd_t_other; [reflexivity|]. intros E. apply (Hsep id0 Hf). congruence.
    - eapply fresh_run_others; eauto.
    - rewrite (fresh_run_others L1 (empty_of y) L2 fs now _ _ _ _ (inv_transfer_done L1 y L2 fs t id0 now I Hf) eq_refl R j Hj).
      rewrite td_obj_other; [reflexivity|]. apply (Hsep id0 Hf).
  Qed.

  (* the slot at position [k] holds [id] with a packet that is due *)
  Definition DueAt (now : Z) (k : nat) (id : nat) (e : enc) (L : list session) (t : st) : Prop :=
    exists ss, nth_error L k = Some ss /\ ss_file ss = Some id /\ ss_enc ss = Some e
               /\ enc_has_packet e = true /\ paced now t id = false.

  Lemma due_vstep now k id e L fs t y o L' t' :
    INV L fs t -> vstep now L t y o L' t' -> DueAt now k id e L t ->
    (exists c, o = out_of t id c) \/ DueAt now k id e L' t'.
  Proof.
    intros I V (ss & Hk & Hf & He & Hp & Hd). destruct V as [L1 y L2 t o y' t' H].
    destruct (Lwf_mid _ _ _ (inv_L _ _ _ I)) as (A1 & _).
    apply file_run_inv in H; [|assumption].
    destruct (Nat.eq_dec k (length L1)) as [->|Hne].
    - rewrite nth_error_mid in Hk. inversion Hk; subst y.
      destruct H as [id0 e0 Hf0 He0 Hw|e0 He0 Hf0|id0 e0 c e' Hf0 He0 Hq Hpc Er|o y' t' He0 R|id0 e0 e' o y' t' Hf0 He0 Hq Hpc Er R].
      + right. exists ss. rewrite nth_error_mid. auto.
      + congruence.
      + left. exists c. congruence.
      + congruence.
      + exfalso. assert (e0 = e) by congruence. subst e0.
        destruct (enc_has_packet_read e (must_stop_of ss t id0) Hp) as (c & e'' & Ec). congruence.
    - right. exists ss. split; [rewrite <- Hk; apply nth_error_mid_neq; exact Hne|].
      split; [exact Hf|]. split; [exact He|]. split; [exact Hp|].
      assert (Hin : In id (slot_ids (L1 ++ L2))).
      { eapply in_slot_ids_of; [|exact Hf]. eapply nth_mid_other; eauto. }
      unfold paced in *. rewrite (file_run_others _ _ _ _ _ _ _ _ _ I H id Hin). exact Hd.
  Qed.

  Lemma due_qpath now k id e L fs t L' t' :
    INV L fs t -> qpath now L t L' t' -> DueAt now k id e L t -> DueAt now k id e L' t'.
  Proof.
    intros I Pq. revert I. induction Pq as [|L t ss L1 t1 L2 t2 V Pq IH]; intros I D; [exact D|].
    apply IH; [eapply inv_vstep; eauto|].
    destruct (due_vstep now k id e _ _ _ _ _ _ _ I V D) as [(c & Hc)|D1]; [|exact D1].
    exfalso. symmetry in Hc. exact (out_of_not_nothing _ _ _ Hc).
  Qed.

  Lemma due_in now k id e L t : DueAt now k id e L t -> In id (slot_ids L).
  Proof. intros (ss & Hk & Hf & _). eapply in_slot_ids_of; [eapply nth_error_In; eauto|exact Hf]. Qed.

  Lemma due_runfdt now k id e s o s1 :
    Inv s -> runfdt now s = (o, s1) -> DueAt now k id e (all_sessions (squeues s)) s ->
    DueAt now k id e (all_sessions (squeues s1)) s1.
  Proof.
    intros IS H D. destruct (Inv_runfdt fdt_npk fdt_ok divf now s o s1 IS H) as (_ & F1 & _).
    pose proof (due_in _ _ _ _ _ _ D) as Hin.
    destruct D as (ss & Hk & Hf & He & Hp & Hd). exists ss. rewrite (fr_squeues _ _ _ F1).
    split; [exact Hk|]. split; [exact Hf|]. split; [exact He|]. split; [exact Hp|].
    assert (Hlive : In id (live (all_sessions (squeues s)) s)) by (apply in_or_app; left; exact Hin).
    assert (Hl : (id < length (objs s))%nat).
    { apply (own_bound _ _ _ _ _ _ _ _ (inv_own _ _ _ (Inv_inv _ IS))). exact Hlive. }
    destruct (fr_obj _ _ _ F1 id Hl) as (_ & _ & Et). unfold paced in *. rewrite (Et Hlive). exact Hd.
  Qed.

  (* one read: the packet of the slot goes out, or the slot is still due afterwards *)
  Lemma due_sread now k id e s o s' :
    PInv s -> sread now s = (o, s') -> DueAt now k id e (all_sessions (squeues s)) s ->
    (exists c, o = out_of s id c) \/ DueAt now k id e (all_sessions (squeues s')) s'.
  Proof.
    intros P H D. pose proof (q_inv _ (p_q _ P)) as IS.
    assert (Hl : (id < length (objs s))%nat).
    { apply (own_bound _ _ _ _ _ _ _ _ (inv_own _ _ _ (Inv_inv _ IS))). apply in_or_app. left. exact (due_in _ _ _ _ _ _ D). }
    unfold sender_read in H.
    destruct (runfdt now s) as [o1 s1] eqn:E1.
    pose proof (due_runfdt now k id e s o1 s1 IS E1 D) as D1.
    destruct (Inv_runfdt fdt_npk fdt_ok divf now s o1 s1 IS E1) as (IS1 & F1 & _).
    destruct o1; try (inversion H; subst; right; exact D1).
    destruct (rqs [] (squeues s1) now s1) as [[o2 qs] s2] eqn:E2.
    destruct (Inv_after_queues fdt_npk fdt_ok divf now s1 o2 qs s2 IS1 E2) as (IS3 & _).
    destruct (read_queues_path fdt_npk fdt_ok divf now _ _ _ _ _ _ (Forall_nil _) (Inv_wfq _ IS1) E2) as (_ & _ & (Lm & tm & Pm & Rm)).
    cbn [app] in Pm.
    pose proof (due_qpath now k id e _ _ _ _ _ (Inv_inv _ IS1) Pm D1) as Dm.
    assert (Im : INV Lm (fdt_session s1) tm) by (eapply inv_qpath; [exact (Inv_inv _ IS1)|exact Pm]).
    assert (Hfo : f_o (obj tm id) = f_o (obj s id)).
    { rewrite (sh_fo _ _ _ _ (shrink_qpath fdt_npk fdt_ok divf _ _ _ _ _ _ (Inv_inv _ IS1) Pm) id).
      - apply (fr_obj _ _ _ F1 id Hl).
      - pose proof (fr_len _ _ _ F1). lia. }
    assert (D2 : (exists c, o2 = out_of s id c) \/ DueAt now k id e (all_sessions qs) s2).
    { destruct Rm as [(_ & -> & ->)|(_ & x & _ & Vx)]; [right; exact Dm|].
      destruct (due_vstep now k id e _ _ _ _ _ _ _ Im Vx Dm) as [(c & Hc)|D2]; [left|right; exact D2].
      exists c. rewrite Hc. apply out_of_congr. exact Hfo. }
    destruct D2 as [D2|D2].
    { destruct o2; try (inversion H; subst; left; exact D2).
      exfalso. destruct D2 as (c & Hc). symmetry in Hc. exact (out_of_not_nothing _ _ _ Hc). }
    assert (D3 : DueAt now k id e (all_sessions (squeues (set_squeues s2 qs))) (set_squeues s2 qs)) by exact D2.
    destruct o2; try (inversion H; subst; right; exact D3).
    right. eapply due_runfdt; eauto.
  Qed.

  Lemma due_ready now k id e s :
    DueAt now k id e (all_sessions (squeues s)) s -> exists q, In q (squeues s) /\ queue_ready s now q = true.
  Proof.
    intros (ss & Hk & Hf & He & Hp & Hd). apply nth_error_In in Hk.
    unfold all_sessions in Hk. apply in_flat_map in Hk. destruct Hk as (q & Hq & Hss).
    exists q. split; [exact Hq|]. unfold queue_ready. apply orb_true_iff. left.
    apply existsb_exists. exists ss. split; [exact Hss|].
    unfold ready_in_slot. rewrite Hf, He, Hp, tick_due_paced, Hd. reflexivity.
  Qed.

  (* G1, the bound.  A slot holds an object with a packet that is due at [now]: every read at that
     instant returns a packet, and after fewer than [MUs now s] of them (the packets the sender still
     owes at that instant, all queues and the FDT together) the read returns the packet of that
     object. *)
  Theorem due_packet_goes_out now : forall s k id e,
    PInv s -> divf_total divf -> DueAt now k id e (all_sessions (squeues s)) s ->
    exists n c, (n < MUs now s)%nat
      /\ Forall (fun o => is_pkt o = true) (fst (read_n now n s))
      /\ fst (sread now (snd (read_n now n s))) = out_of s id c.
  Proof.
    intros s. remember (MUs now s) as m eqn:Em. revert s Em.
    induction m as [m IH] using lt_wf_ind. intros s Em k id e P Hd D.
    destruct (sread now s) as [o s1] eqn:E.
    destruct (due_ready now k id e s D) as (q & Hq & Hr).
    destruct (prompt_read fdt_npk fdt_ok divf now s q o s1 P Hd Hq Hr E) as [Hpk _].
    destruct (read_mu fdt_npk fdt_ok divf now s o s1 (p_q _ P) E) as (_ & _ & M2 & _). specialize (M2 Hpk).
    pose proof (PInv_sread fdt_npk fdt_ok divf now s o s1 P E) as P1.
    destruct (due_sread now k id e s o s1 P E D) as [(c & Hc)|D1].
    - exists 0%nat, c. split; [lia|]. cbn [read_n fst snd]. split; [constructor|]. rewrite E. exact Hc.
    - assert (Hlt : (MUs now s1 < m)%nat) by lia.
      destruct (IH (MUs now s1) Hlt s1 eq_refl k id e P1 Hd D1) as (n' & c & Hn' & Hall' & Hout).
      exists (S n'), c. split; [lia|]. cbn [read_n]. rewrite E.
      destruct (read_n now n' s1) as [os s2] eqn:En. cbn [fst snd] in *.
      split; [constructor; assumption|]. rewrite Hout. apply out_of_congr.
      assert (Hl : (id < length (objs s))%nat).
      { apply (own_bound _ _ _ _ _ _ _ _ (inv_own _ _ _ (Inv_inv _ (q_inv _ (p_q _ P))))).
        apply in_or_app. left. exact (due_in _ _ _ _ _ _ D). }
      apply (Later_obj now s s1 id (Later_sread fdt_npk fdt_ok divf now s s o s1 (Later_refl now s) E) Hl).
  Qed.
End Due.

(* ============================== part 7b: round robin inside one queue ============================== *)

(* visits still to come before the round-robin index [i] reaches slot [j] *)
Definition rr_dist (i j len : nat) : nat := if (i <=? j)%nat then (j - i)%nat else (len - i + j)%nat.

Lemma rr_dist_bound i j len : (i < len)%nat -> (j < len)%nat -> (rr_dist i j len < len)%nat.
Proof. intros Hi Hj. unfold rr_dist. destruct (Nat.leb_spec i j); lia. Qed.

Lemma rr_dist_step i j len : (i < len)%nat -> (j < len)%nat -> i <> j ->
  (rr_dist (if Nat.eqb (S i) len then 0 else S i) j len < rr_dist i j len)%nat.
Proof.
  intros Hi Hj Hne. unfold rr_dist.
  destruct (Nat.eqb_spec (S i) len); destruct (Nat.leb_spec i j); destruct (Nat.leb_spec 0 j);
    destruct (Nat.leb_spec (S i) j); lia.
Qed.

Lemma rout_eq_nothing (o : rout) : o = RNothing \/ o <> RNothing.
Proof. destruct o; auto; right; discriminate. Qed.

Lemma rout_match {A} (o1 : rout) (X Y : A) : o1 <> RNothing ->
  match o1 with RNothing => X | _ => Y end = Y.
Proof. intros H. destruct o1; try reflexivity. contradiction. Qed.

Section Fair.
  Variable fdt_npk : N -> nat.
  Variable fdt_ok : N -> bool.
  Variable divf : Z -> N -> option Z.

  Notation srun := (session_run fdt_npk fdt_ok divf).
  Notation rrl := (rr_loop fdt_npk fdt_ok divf).
  Notation rpq := (read_priority_queue fdt_npk fdt_ok divf).
  Notation file_run := (file_run fdt_npk fdt_ok divf).

  (* the visit of the slot itself sends its packet, unless an FDT instance is queued *)
  Lemma due_visit now k id e L1 y L2 fs t o y' t' :
    INV (L1 ++ y :: L2) fs t -> srun 4 y now t = (o, y', t') -> DueAt now k id e (L1 ++ y :: L2) t ->
    (k = length L1 /\ ((exists c, o = out_of t id c) \/ (o = RNothing /\ fdtq t <> [])))
    \/ (k <> length L1 /\ DueAt now k id e (L1 ++ y' :: L2) t').
  Proof.
    intros I H (ss & Hk & Hf & He & Hp & Hd).
    destruct (Lwf_mid _ _ _ (inv_L _ _ _ I)) as (A1 & _).
    apply file_run_inv in H; [|assumption].
    destruct (Nat.eq_dec k (length L1)) as [->|Hne].
    - left. split; [reflexivity|].
      rewrite nth_error_mid in Hk. inversion Hk; subst y.
      destruct H as [id0 e0 Hf0 He0 Hw|e0 He0 Hf0|id0 e0 c e' Hf0 He0 Hq Hpc Er|o y' t' He0 R|id0 e0 e' o y' t' Hf0 He0 Hq Hpc Er R].
      + right. split; [reflexivity|]. destruct Hw as [Hw|Hw]; [exact Hw|]. assert (id0 = id) by congruence. subst id0. congruence.
      + congruence.
      + left. exists c. congruence.
      + congruence.
      + exfalso. assert (e0 = e) by congruence. subst e0.
        destruct (enc_has_packet_read e (must_stop_of ss t id0) Hp) as (c & e'' & Ec). congruence.
    - right. split; [exact Hne|]. exists ss. split; [rewrite <- Hk; apply nth_error_mid_neq; exact Hne|].
      split; [exact Hf|]. split; [exact He|]. split; [exact Hp|].
      assert (Hin : In id (slot_ids (L1 ++ L2))).
      { eapply in_slot_ids_of; [|exact Hf]. eapply nth_mid_other; eauto. }
      unfold paced in *. rewrite (file_run_others fdt_npk fdt_ok divf _ _ _ _ _ _ _ _ _ I H id Hin). exact Hd.
  Qed.

  Lemma rr_fair now Lpre Lpost fs : forall n q orig t o q' t' j id e,
    wfq q -> INV (Lpre ++ q_sessions q ++ Lpost) fs t -> fdtq t' = [] ->
    (j < length (q_sessions q))%nat ->
    DueAt now (length Lpre + j) id e (Lpre ++ q_sessions q ++ Lpost) t ->
    rrl n q orig now t = (o, q', t') -> o <> RNothing ->
    (exists c, o = out_of t id c)
    \/ (DueAt now (length Lpre + j) id e (Lpre ++ q_sessions q' ++ Lpost) t'
        /\ (rr_dist (q_index q') j (length (q_sessions q)) < rr_dist (q_index q) j (length (q_sessions q)))%nat).
  Proof.
    induction n as [|n IH]; intros q orig t o q' t' j id e W I Hq' Hj D H0 Hn.
    { cbn [rr_loop] in H0. inversion H0; subst. congruence. }
    pose proof H0 as H.
    destruct (rr_step_eq fdt_npk fdt_ok divf n q orig now t W) as (a & ss & b & o1 & ss1 & t1 & Eq & Ea & Hss & Er & Hrest).
    cbv zeta in Hrest. destruct Hrest as [W1 Eloop]. rewrite Eloop in H. clear Eloop.
    set (idx2 := (if Nat.eqb (S (q_index q)) (length (q_sessions q)) then 0 else S (q_index q))%nat) in *.
    set (q1 := mk_squeue (q_prio q) idx2 (a ++ ss1 :: b)) in *.
    assert (Ectx : Lpre ++ q_sessions q ++ Lpost = (Lpre ++ a) ++ ss :: (b ++ Lpost))
      by (rewrite Eq, <- !app_assoc; reflexivity).
    assert (Ectx1 : Lpre ++ q_sessions q1 ++ Lpost = (Lpre ++ a) ++ ss1 :: (b ++ Lpost))
      by (unfold q1; cbn [q_sessions]; rewrite <- !app_assoc; reflexivity).
    pose proof (rr_fdtq_mono fdt_npk fdt_ok divf now Lpre Lpost fs _ q orig t o q' t' W I H0 Hq') as Hq0.
    assert (Hlen1 : length (q_sessions q1) = length (q_sessions q)).
    { unfold q1. cbn [q_sessions]. rewrite Eq, !app_length. reflexivity. }
    assert (Hl : (id < length (objs t))%nat).
    { apply (own_bound _ _ _ _ _ _ _ _ (inv_own _ _ _ I)). apply in_or_app. left. exact (due_in _ _ _ _ _ _ D). }
    rewrite Ectx in I, D.
    destruct (Lwf_mid _ _ _ (inv_L _ _ _ I)) as (A1 & _).
    pose proof (file_run_inv fdt_npk fdt_ok divf now _ _ _ _ _ _ A1 Er) as R.
    pose proof (inv_file_run _ _ _ _ _ _ _ _ _ _ _ _ I R) as I1.
    pose proof (shrink_file_run _ _ _ _ _ _ _ _ _ _ _ _ I R) as S1.
    destruct W as [Wi Wp].
    destruct (due_visit now _ id e _ _ _ _ _ _ _ _ I Er D) as [(Ek & Hv)|(Ek & D1)].
    - (* the slot itself is visited *)
      destruct Hv as [(c & Hc)|(Hc & Hfq)]; [|contradiction].
      assert (Hn1 : o1 <> RNothing) by (rewrite Hc; apply out_of_not_nothing).
      rewrite (rout_match o1 _ _ Hn1) in H. inversion H; subst. left. exists c. reflexivity.
    - assert (Hij : q_index q <> j) by (intros E; apply Ek; rewrite app_length; lia).
      rewrite <- Ectx1 in D1, I1.
      pose proof (rr_dist_step (q_index q) j (length (q_sessions q)) Wi Hj Hij) as Hstep. fold idx2 in Hstep.
      destruct (rout_eq_nothing o1) as [E1|Hn1].
      + subst o1. destruct (Nat.eqb idx2 orig); [inversion H; subst; congruence|].
        destruct (IH q1 orig t1 o q' t' j id e W1 I1 Hq' ltac:(lia) D1 H Hn) as [(c & Hc)|(D2 & Hd2)].
        * left. exists c. rewrite Hc. apply out_of_congr. apply (sh_fo _ _ _ _ S1 id Hl).
        * right. split; [exact D2|]. rewrite Hlen1 in Hd2. change (q_index q1) with idx2 in Hd2. lia.
      + rewrite (rout_match o1 _ _ Hn1) in H. inversion H; subst. right. split; [exact D1|]. exact Hstep.
  Qed.

  (* Round robin.  A queue is read; one of its slots holds an object with a packet that is due; no
     FDT instance is queued afterwards.  The queue returns a packet; it is the packet of that object,
     or the slot is still due and the round-robin index has moved closer to it: after at most
     (number of slots) reads of the queue the packet has gone out. *)
  Theorem rr_fairness now Lpre Lpost fs q t o q' t' j id e :
    wfq q -> INV (Lpre ++ q_sessions q ++ Lpost) fs t -> rpq q now t = (o, q', t') -> fdtq t' = [] ->
    (j < length (q_sessions q))%nat ->
    DueAt now (length Lpre + j) id e (Lpre ++ q_sessions q ++ Lpost) t ->
    o <> RNothing
    /\ ((exists c, o = out_of t id c)
        \/ (DueAt now (length Lpre + j) id e (Lpre ++ q_sessions q' ++ Lpost) t'
            /\ (rr_dist (q_index q') j (length (q_sessions q)) < rr_dist (q_index q) j (length (q_sessions q)))%nat))
    /\ (rr_dist (q_index q) j (length (q_sessions q)) < length (q_sessions q))%nat.
  Proof.
    intros W I H Hq' Hj D. unfold read_priority_queue in H.
    assert (Hn : o <> RNothing).
    { destruct D as (ss & Hk & Hf & He & Hp & Hd).
      assert (Hjs : nth_error (q_sessions q) j = Some ss).
      { rewrite nth_error_app2 in Hk by lia. replace (length Lpre + j - length Lpre)%nat with j in Hk by lia.
        rewrite nth_error_app1 in Hk by exact Hj. exact Hk. }
      assert (Hr : Rdy now ss t (q_prio q)).
      { left. unfold ready_in_slot. rewrite Hf, He, Hp, tick_due_paced, Hd. reflexivity. }
      assert (Hrem : (rem (q_index q) (q_index q) (length (q_sessions q)) <= length (q_sessions q))%nat).
      { unfold rem. rewrite Nat.ltb_irrefl. destruct W. lia. }
      assert (Harc : in_arc (q_index q) (q_index q) j).
      { unfold in_arc. rewrite Nat.ltb_irrefl. lia. }
      exact (rr_noisy fdt_npk fdt_ok divf now Lpre Lpost fs (length (q_sessions q)) q (q_index q) t
                      o q' t' j ss W (proj1 W) I Hq' Hrem Harc Hjs Hr H). }
    split; [exact Hn|]. split; [|apply rr_dist_bound; [apply (proj1 W)|exact Hj]].
    eapply rr_fair; eauto.
  Qed.
End Fair.

(* ============================== part 8: eligibility of degenerate objects ============================== *)

(* whether an object may start does not depend on its size nor on its target: an empty object, a
   deadline in the past, a zero target duration are eligible exactly when any other object is *)
Lemma stn_payload_indep o o' pub t prio full now :
  o_prio o' = o_prio o -> o_max o' = o_max o -> o_car o' = o_car o ->
  should_transfer_now (mk_fdesc o' pub t) prio full now = should_transfer_now (mk_fdesc o pub t) prio full now.
Proof. intros E1 E2 E3. unfold should_transfer_now. cbn [f_o f_t f_pub]. rewrite E1, E2, E3. reflexivity. Qed.

(* a zero carousel delay: the next transfer may start at any instant strictly after the end of the
   previous one (not at the same instant) *)
Lemma zero_delay_eligible f prio full now le ls :
  o_prio (f_o f) = prio -> (full = true -> f_pub f = true) ->
  match t_start_time (f_t f) with Some stt => (stt <= now)%Z | None => True end ->
  t_transferring (f_t f) = false ->
  o_car (f_o f) = CDelay 0 -> t_last_end (f_t f) = Some le -> t_last_start (f_t f) = Some ls ->
  o_max (f_o f) <= t_count (f_t f) ->
  should_transfer_now f prio full now = (le <? now)%Z.
Proof.
  intros Ep Hpub Hst Htr Hc Hle Hls Hmax. unfold should_transfer_now.
  rewrite Ep, N.eqb_refl. cbn [negb].
  assert (E1 : full && negb (f_pub f) = false).
  { destruct full; [rewrite Hpub by reflexivity|]; reflexivity. }
  rewrite E1.
  assert (E2 : match t_start_time (f_t f) with Some stt => (now <? stt)%Z | None => false end = false).
  { destruct (t_start_time (f_t f)); [apply Z.ltb_ge; exact Hst|reflexivity]. }
  rewrite E2, Htr. apply N.ltb_ge in Hmax. rewrite Hmax, Hc, Hle, Hls.
  destruct (Z.ltb_spec le now) as [H|H].
  - apply Z.ltb_lt. lia.
  - apply Z.ltb_ge. lia.
Qed.

(* ============================== part 9: statements for reachable states ============================== *)

Lemma mono_app_read : forall ops T now,
  mono_ops T (ops ++ [OpRead now]) -> mono_ops T ops /\ (last_time T ops <= now)%Z.
Proof.
  induction ops as [|o r IH]; intros T now H.
  - cbn in *. split; [exact I|tauto].
  - destruct o; cbn [app mono_ops last_time] in *; try (apply IH; exact H).
    destruct H as [H1 H2]. destruct (IH _ _ H2) as [A B]. auto.
Qed.

Section Final.
  Variable fdt_npk : N -> nat.
  Variable fdt_ok : N -> bool.
  Variable divf : Z -> N -> option Z.

  Notation sread := (sender_read fdt_npk fdt_ok divf).
  Notation runs := (run_ops fdt_npk fdt_ok divf).
  Notation runfdt := (run_fdt_session fdt_npk fdt_ok divf).
  Notation read_n := (read_n fdt_npk fdt_ok divf).
  Notation MUs := (MUs fdt_npk).
  Notation reach_ok := (reach_ok fdt_npk fdt_ok divf).

  (* the reads of the history and the read at [now] never go back in time *)
  Lemma reach_ZInv full dur car sid queues ops now :
    divf_zero divf -> reads_monotone (ops ++ [OpRead now]) ->
    exists T, (T <= now)%Z /\ ZInv T (snd (runs (init_st full dur car sid queues) ops)).
  Proof.
    intros Hz Hm. destruct (reads_monotone_mono _ Hm) as (T0 & Hm0).
    destruct (mono_app_read ops T0 now Hm0) as [Hm1 Hle].
    exists (last_time T0 ops). split; [exact Hle|].
    apply ZInv_run; [exact Hz|apply ZInv_init|exact Hm1].
  Qed.

  Theorem hist_prompt_read full dur car sid queues ops now q o s' :
    reach_ok full dur car sid queues ops -> divf_total divf ->
    let s := snd (runs (init_st full dur car sid queues) ops) in
    In q (squeues s) -> queue_ready s now q = true -> sread now s = (o, s') ->
    is_pkt o = true
    /\ forall toi c, o = RObj toi c ->
         exists p, prio_of_toi s toi = Some p /\ p <= q_prio q
                   /\ forall q', In q' (squeues s) -> q_prio q' < p -> queue_ready s now q' = false.
  Proof.
    intros H Hd. cbv zeta. apply prompt_read; [apply PInv_reach; exact H|exact Hd].
  Qed.

  Theorem hist_prompt_read_object full dur car sid queues ops now q o s' s1 :
    reach_ok full dur car sid queues ops -> divf_total divf ->
    let s := snd (runs (init_st full dur car sid queues) ops) in
    In q (squeues s) -> queue_ready s now q = true ->
    runfdt now s = (RNothing, s1) -> full_fdt s = true ->
    sread now s = (o, s') ->
    exists id c, In id (live (all_sessions (squeues s)) s) /\ o = out_of s id c
      /\ o_prio (f_o (obj s id)) <= q_prio q
      /\ forall q', In q' (squeues s) -> q_prio q' < o_prio (f_o (obj s id)) -> queue_ready s now q' = false.
  Proof.
    intros H Hd. cbv zeta. apply prompt_read_object; [apply PInv_reach; exact H|exact Hd].
  Qed.

  Theorem hist_silent_read full dur car sid queues ops now s' :
    reach_ok full dur car sid queues ops ->
    let s := snd (runs (init_st full dur car sid queues) ops) in
    sread now s = (RNothing, s') ->
    (forall q, In q (squeues s) -> queue_ready s now q = false)
    /\ (forall q ss id e, In q (squeues s) -> In ss (q_sessions q) -> ss_file ss = Some id -> ss_enc ss = Some e ->
          enc_has_packet e = true -> paced now s id = true)
    /\ (forall q id, In q (squeues s) -> In id (queue s) ->
          should_transfer_now (obj s id) (q_prio q) (full_fdt s) now = true ->
          forall ss, In ss (q_sessions q) ->
            exists id' e, ss_file ss = Some id' /\ ss_enc ss = Some e /\ paced now s id' = true)
    /\ fdtq s' = []
    /\ (forall ss id, In ss (all_sessions (squeues s')) -> ss_file ss = Some id -> paced now s' id = true).
  Proof.
    intros H. cbv zeta. intros E. pose proof (PInv_reach fdt_npk fdt_ok divf _ _ _ _ _ _ H) as P.
    split; [exact (silent_read_nothing_ready fdt_npk fdt_ok divf now _ s' P E)|].
    destruct (silent_read_objects fdt_npk fdt_ok divf now _ s' P E) as [A B].
    destruct (silent_read_post fdt_npk fdt_ok divf now _ s' P E) as (C & _ & D).
    split; [exact A|]. split; [exact B|]. split; [exact C|exact D].
  Qed.

  Theorem hist_due_packet_goes_out full dur car sid queues ops now k id e :
    reach_ok full dur car sid queues ops -> divf_total divf ->
    let s := snd (runs (init_st full dur car sid queues) ops) in
    DueAt now k id e (all_sessions (squeues s)) s ->
    exists n c, (n < MUs now s)%nat
      /\ Forall (fun o => is_pkt o = true) (fst (read_n now n s))
      /\ fst (sread now (snd (read_n now n s))) = out_of s id c.
  Proof.
    intros H Hd. cbv zeta. apply due_packet_goes_out; [apply PInv_reach; exact H|exact Hd].
  Qed.

  Theorem hist_silent_no_unpaced_held full dur car sid queues ops now s' :
    reach_ok full dur car sid queues ops -> divf_zero divf -> reads_monotone (ops ++ [OpRead now]) ->
    let s := snd (runs (init_st full dur car sid queues) ops) in
    sread now s = (RNothing, s') ->
    forall ss id, In ss (all_sessions (squeues s')) -> ss_file ss = Some id ->
      ~ unpaced_target (f_o (obj s' id)) /\ ~ zero_started s' id.
  Proof.
    intros H Hz Hm. cbv zeta. destruct (reach_ZInv full dur car sid queues ops now Hz Hm) as (T & Hle & Z).
    eapply silent_read_no_unpaced_held; eauto. apply PInv_reach; exact H.
  Qed.

  Theorem hist_unpaced_held_completes full dur car sid queues ops now ss id :
    reach_ok full dur car sid queues ops -> divf_total divf -> divf_zero divf ->
    reads_monotone (ops ++ [OpRead now]) ->
    let s := snd (runs (init_st full dur car sid queues) ops) in
    In ss (all_sessions (squeues s)) -> ss_file ss = Some id ->
    unpaced_target (f_o (obj s id)) \/ zero_started s id ->
    exists n s1, (n <= MUs now s)%nat
      /\ Forall (fun o => is_pkt o = true) (fst (read_n now n s))
      /\ sread now (snd (read_n now n s)) = (RNothing, s1)
      /\ t_total (f_t (obj s id)) < t_total (f_t (obj s1 id)).
  Proof.
    intros H Hd Hz Hm. cbv zeta. destruct (reach_ZInv full dur car sid queues ops now Hz Hm) as (T & Hle & Z).
    eapply unpaced_held_completes; eauto. apply PInv_reach; exact H.
  Qed.

  Theorem hist_unpaced_waiting_completes full dur car sid queues ops now q id :
    reach_ok full dur car sid queues ops -> divf_total divf -> divf_zero divf ->
    reads_monotone (ops ++ [OpRead now]) ->
    let s := snd (runs (init_st full dur car sid queues) ops) in
    In q (squeues s) -> In id (queue s) ->
    should_transfer_now (obj s id) (q_prio q) (full_fdt s) now = true ->
    unpaced_target (f_o (obj s id)) \/ zero_at now (f_o (obj s id)) ->
    exists n s1, (n <= MUs now s)%nat
      /\ Forall (fun o => is_pkt o = true) (fst (read_n now n s))
      /\ sread now (snd (read_n now n s)) = (RNothing, s1)
      /\ (t_total (f_t (obj s id)) < t_total (f_t (obj s1 id))
          \/ (In id (queue s1)
              /\ should_transfer_now (obj s1 id) (q_prio q) (full_fdt s1) now = true
              /\ forall q1 ss, In q1 (squeues s1) -> q_prio q1 = q_prio q -> In ss (q_sessions q1) ->
                   exists id' e, ss_file ss = Some id' /\ ss_enc ss = Some e /\ paced now s1 id' = true)).
  Proof.
    intros H Hd Hz Hm. cbv zeta. destruct (reach_ZInv full dur car sid queues ops now Hz Hm) as (T & Hle & Z).
    eapply unpaced_waiting_completes; eauto. apply PInv_reach; exact H.
  Qed.
End Final.

(* ============================== part 10: the premises hold of a concrete scenario ============================== *)
Lemma ex_div_total : divf_total cex_div.
Proof. intros d n _. discriminate. Qed.

Lemma ex_div_zero : divf_zero cex_div.
Proof. intros n k H. unfold cex_div in H. inversion H. rewrite Zdiv_0_l. apply Z.le_refl. Qed.

Lemma ex_premises :
  reach_ok cex_npk cex_ok cex_div true 3600000000000 (CDelay 1000000000) 1 [(0, 2%nat); (3, 1%nat)]
           [OpAdd (mk_odesc 1 0 2 2 1 CNone TNone false None []) None true; OpPublish 0; OpRead 0]
  /\ divf_total cex_div /\ divf_zero cex_div.
Proof.
  split; [|split; [exact ex_div_total|exact ex_div_zero]].
  split; [repeat constructor|]. repeat split; vm_compute; reflexivity.
Qed.
