(* C01 / C16 at the SESSION level, No-Code scheme: composition of
     (a) the sender's data plane (Model/BlockEnc.v; Proofs/C01Full.v, C01Esi.v: [wire_pkts] = the packets of one
         uninterrupted transfer on the wire),
     (b) the sender's FDT content (Model/FdtInst.v [fdt_xml], printed by the reference printer of Model/Xml.v),
     (c) the receiver as a whole (Model/Recv.v; Proofs/C02Session.v: one FDT packet and the object's packets),
     (d) the receiver's FDT oracle [parse_fdt : list N -> option fdtinst] of Model/Recv.v, INSTANTIATED here by
         [fdt_oracle] = the reference XML parser followed by the extraction of Model/FdtRecv.v (the model of
         fdtinstance.rs accessors / attach_fdt) into the receiver model's [fdtinst],
   and of the metadata the receiver hands to the writer builder (FdtRecv.recv_meta, theorem
   receiver_meta_from_fdt of Proofs/FdtProofs.v). *)
From FluteV Require Import Spec.SessionSpec Spec.RecvSpec.
From FluteV Require Import Model.Ntp Proofs.AlcProofs.
From FluteV Require Import Model.Xml Model.SenderCtl Model.FdtInst Model.FdtRecv Spec.C10Spec Proofs.XmlProofs Proofs.FdtProofs.
From FluteV Require Import Model.Partition Model.BlockEnc Spec.C07Spec Spec.C08Spec
  Proofs.PartitionProofs Proofs.BlockEncProofs Proofs.C08Full
  Model.ObjRecv Model.Recv Proofs.SessionProofs Proofs.C02Full Proofs.C02Session Proofs.C01Full Proofs.C01Esi.
From Coq Require Import Lia Arith PeanoNat Ascii.
Open Scope bool_scope.
Open Scope N_scope.

Arguments N.add : simpl never. Arguments N.mul : simpl never. Arguments N.sub : simpl never.
Arguments N.div : simpl never. Arguments N.modulo : simpl never. Arguments N.min : simpl never.
Arguments N.ltb : simpl never. Arguments N.leb : simpl never. Arguments N.eqb : simpl never.
Arguments N.of_nat : simpl never. Arguments N.to_nat : simpl never.
Arguments Z.add : simpl never. Arguments Z.sub : simpl never. Arguments Z.mul : simpl never.
Arguments Z.div : simpl never. Arguments Z.modulo : simpl never.
Arguments Z.ltb : simpl never. Arguments Z.leb : simpl never.

(* ================= 1. the FDT oracle of the receiver model, as a function ================= *)
(* packet bytes <-> the byte strings of Model/Xml.v *)
Definition str_of_bytes (d : list N) : str := map chr d.
Definition bytes_of_str (s : str) : list N := map code s.

(* lct::Cenc as u8 -> the receiver model's cenc *)
Definition cenc_of_N (c : N) : cenc :=
  if c =? 1 then CZlib else if c =? 2 then CDeflate else if c =? 3 then CGzip else CNull.

(* oti::Oti (Model/FdtInst.v) -> the receiver model's OTI (Model/ObjRecv.v), as Model/RecvBytes.v roti_of does
   for the OTI of EXT_FTI *)
Definition roti_of (o : FdtInst.oti) : option roti :=
  match fec_of_cp (fec_id o) with
  | Some f => Some (mk_roti f (esl o) (max_sbl o) (parity o)
                            (match sch o with
                             | SchRaptorQ z n al | SchRaptor z n al => Some (z, n, al)
                             | _ => None
                             end))
  | None => None
  end.

(* File::get_oti / FdtInstance::get_oti on the attribute set [x]: None = the instance is unusable (an attribute
   does not deserialize: FdtInstance::parse fails; or FdtRecv's OPanic case - fewer encoding symbols than source
   symbols -, which never arises for an instance the sender model prints), Some None = no OTI *)
Definition oti_field (x : xoti) : option (option roti) :=
  match de_oti x with
  | None => None
  | Some n => match get_oti b64_decode n with
              | FdtRecv.OPanic => None
              | FdtRecv.ONone => Some None
              | OSome o => Some (roti_of o)
              end
  end.

(* FdtInstance::get_file compares the TOI attribute with toi.to_string(): only the canonical decimal text of a
   TOI denotes it; anything else matches no object (2^128 is not a TOI) *)
Definition BAD_TOI : N := 340282366920938463463374607431768211456.
Definition toi_of_str (s : str) : N :=
  match parse_dec s with
  | Some v => if str_eqb (dec v) s then v else BAD_TOI
  | None => BAD_TOI
  end.

(* one File element -> the receiver model's fdtfile: content encoding (Cenc::try_from(..).unwrap_or(Null)), the
   file's own OTI, File::get_transfer_length, Content-MD5 (text bytes), Content-Length, cache_control == NoCache *)
Definition file_entry (fdt_exp : option N) (f : xfile) : option fdtfile :=
  match num_attr FdtRecv.U64 (xf_clen f), num_attr FdtRecv.U64 (xf_tlen f), oti_field (xf_oti f),
        cache_of (xf_cache f) fdt_exp with
  | Some clen, Some tlen, Some fo, Some cache =>
    Some (mk_ff (toi_of_str (xf_toi f)) (cenc_of_N (cenc_of_str (xf_cenc f))) fo
                (match tlen with Some v => v | None => match clen with Some v => v | None => 0 end end)
                (option_map bytes_of_str (xf_md5 f)) clen
                (match cache with RNoCache => true | _ => false end))
  | _, _, _, _ => None
  end.

Fixpoint all_some {A B} (f : A -> option B) (l : list A) : option (list B) :=
  match l with
  | [] => Some []
  | x :: r => match f x, all_some f r with Some y, Some ys => Some (y :: ys) | _, _ => None end
  end.

(* a parsed instance -> the receiver model's fdtinst; Expires in ns since 1970 as Model/Recv.v compares it with
   EXT_TIME (FdtInstance::get_expiration_date, microseconds in FdtRecv.expiration_us) *)
Definition inst_of_xfdt (x : xfdt) : option fdtinst :=
  let exp := expiration_us (xi_expires x) in
  match oti_field (xi_oti x), all_some (file_entry exp) (xi_files x) with
  | Some io, Some fs => Some (mk_fi fs io (option_map (fun us => (Z.of_N us * 1000)%Z) exp))
  | _, _ => None
  end.

(* THE ORACLE: reference XML parser, then the extraction *)
Definition fdt_oracle (d : list N) : option fdtinst :=
  match Xml.parse_fdt (str_of_bytes d) with
  | Some x => inst_of_xfdt x
  | None => None
  end.

(* ================= 2. the sender side of one No-Code object ================= *)
(* the data-plane configuration (Model/BlockEnc.v) of the object described by [m] in a session [cfg]: the OTI
   the object is sent with (per-object override or session default), its transfer length *)
Definition obj_ecfg (cfg : fdt_cfg) (m : fmeta) (window : nat) (closable debug : bool) : ecfg :=
  let o := the_oti (c_oti cfg) m in
  mk_ecfg NoCode (esl o) (max_sbl o) (parity o) window closable (m_tlen m) debug.

(* the receiver's view of a No-Code OTI *)
Definition nocode_roti (o : FdtInst.oti) : roti := mk_roti FNoCode (esl o) (max_sbl o) (parity o) None.

(* the document the sender publishes for the object, as packet bytes *)
Definition fdt_doc (cfg : fdt_cfg) (complete : bool) (now : Z) (m : fmeta) : list N :=
  bytes_of_str (fdt_xml cfg complete now [m]).

(* the FDT packet: TOI 0, EXT_FDT [id], EXT_FTI (session OTI, length of the document), no EXT_CENC, EXT_TIME
   [sct] or none, codepoint 0, payload id (0, 0), the document as the only symbol *)
Definition fdt_pkt (id : N) (foti : roti) (sct : option Z) (d : list N) : apkt :=
  mk_apkt 0 false false (Some id) (Some (foti, lenN_ d)) None sct 0 (mk_pid 0 0) d (lenN_ d).

(* the same packet with EXT_FTI (Oti::inband_fti) *)
Definition add_fti (oti : roti) (L : N) (p : apkt) : apkt :=
  mk_apkt (a_toi p) (a_close_obj p) (a_close_sess p) (a_fdt_id p) (Some (oti, L)) (a_cenc p) (a_sct p) (a_cp p)
          (a_pidbytes p) (a_payload p) (a_datalen p).

(* what the receiver model's instance is for that document *)
Definition sess_ff (m : fmeta) : fdtfile :=
  mk_ff (m_toi m) CNull (match m_oti m with Some o => Some (nocode_roti o) | None => None end) (m_tlen m)
        (option_map bytes_of_str (m_md5 m)) (Some (m_clen m))
        (match m_cache m with Some CCNoCache => true | _ => false end).
Definition expiry_ns (cfg : fdt_cfg) (now : Z) : Z :=
  (Z.of_N ((spec_expires now (c_dur cfg) - 2208988800) * 1000000) * 1000)%Z.
Definition sess_inst (cfg : fdt_cfg) (now : Z) (m : fmeta) : fdtinst :=
  mk_fi [sess_ff m] (Some (nocode_roti (c_oti cfg))) (Some (expiry_ns cfg now)).

(* ================= 3. a concrete session (non-vacuity; evaluated below) ================= *)
Definition exs_session : FdtInst.oti := mk_oti 0 0 64 1400 0 SchNone.
Definition exs_cfg : fdt_cfg := mk_fdt_cfg exs_session (Some [lit "G1"]) true 3600000000000.
Definition exs_now : Z := 1700000000700000000.
Definition exs_md5 : str := lit "fXkwN6B2AYZXSwKC8vQ15w==".
Definition exs_m : fmeta :=
  mk_fmeta 7 (lit "file:///a&b.bin") 5 5 (lit "application/octet-stream") 0 (Some exs_md5)
           (Some (mk_oti 0 0 2 2 0 SchNone)) (Some (CCExpires 10000000000)) (Some (lit """e1""")) (Some [lit "g<1>"]).
Definition exs_env : env :=
  mk_env false true (fun _ _ => WStore) (fun _ => true) (fun _ _ => true)
         (fun _ _ _ _ _ _ _ => None) (fun _ => bytes_of_str exs_md5) (fun _ _ _ => None).
Definition exs_rcfg : rconfig := mk_rcfg 5 1000 true true.
Definition exs_doc : list N := fdt_doc exs_cfg false exs_now exs_m.
Definition exs_pf : apkt := fdt_pkt 1 (nocode_roti exs_session) (Some 1700000001000000000%Z) exs_doc.
Definition exs_ecfg (closable : bool) : ecfg := obj_ecfg exs_cfg exs_m 2 closable true.
Definition exs_wire (closable : bool) : list apkt := wire_pkts no_rep no_rsrc (exs_ecfg closable) ex_content 7.
Definition exs_run (evs : list apkt) :=
  let '(xs, r, c) := recv_run exs_env fdt_oracle exs_rcfg recv0 (map (fun p => RvPush p 1700000002000000000%Z) evs) ctx0 in
  (xs, map fst (rv_objects r), rv_completed r, rv_error r, c_log c).


(* ================= 4. the oracle on the document the sender model prints ================= *)
Lemma chr_code c : chr (code c) = c.
Proof. unfold chr, code. apply ascii_N_embedding. Qed.

Lemma str_bytes_roundtrip s : str_of_bytes (bytes_of_str s) = s.
Proof.
  unfold str_of_bytes, bytes_of_str. rewrite map_map. rewrite <- (map_id s) at 2. apply map_ext. exact chr_code.
Qed.

(* the oracle reads back, from the printed bytes of ANY abstract instance, the extraction of that instance *)
Lemma oracle_printed x : fdt_oracle (bytes_of_str (print_fdt x)) = inst_of_xfdt x.
Proof. unfold fdt_oracle. rewrite str_bytes_roundtrip, xml_roundtrip. reflexivity. Qed.

Lemma wf_nocode_sch o : oti_wf o -> fec_id o = 0 -> sch o = SchNone.
Proof.
  intros (_ & _ & _ & _ & _ & Hs) H0. destruct (sch o) as [|a b|a b d|a b d]; [reflexivity| | |];
    destruct Hs as (E & _); rewrite H0 in E; discriminate.
Qed.

Lemma roti_of_nocode o : oti_wf o -> fec_id o = 0 -> roti_of o = Some (nocode_roti o).
Proof.
  intros Hw H0. unfold roti_of, nocode_roti. rewrite (wf_nocode_sch o Hw H0), H0. reflexivity.
Qed.

Lemma oti_field_attributes o : oti_wf o -> oti_field (get_attributes o) = Some (roti_of o).
Proof.
  intros Hw. destruct (get_oti_attributes b64_decode b64_decode_b64 o Hw) as (n & E1 & E2).
  unfold oti_field. rewrite E1, E2. reflexivity.
Qed.

Lemma oti_field_empty : oti_field empty_xoti = Some None.
Proof. reflexivity. Qed.

Lemma toi_of_dec n : toi_of_str (dec n) = n.
Proof. unfold toi_of_str. rewrite parse_dec_dec, str_eqb_refl. reflexivity. Qed.

Lemma expiration_model now dur : time_in_era now -> spec_expires now dur < 4294967296 ->
  expiration_us (dec (expires_value now dur)) = Some ((spec_expires now dur - 2208988800) * 1000000).
Proof.
  intros Ht Hexp. unfold expiration_us. rewrite parse_dec_dec, expires_value_spec by exact Ht.
  assert (spec_expires now dur <? FdtRecv.U64 = true) as -> by (apply N.ltb_lt; unfold FdtRecv.U64; lia).
  rewrite N.mod_small by exact Hexp.
  assert (2208988800 <= spec_expires now dur) by (unfold spec_expires, spec_ntp_secs; lia).
  destruct (N.ltb_spec (spec_expires now dur) 2208988800); [lia|]. reflexivity.
Qed.

Lemma used_oti_nocode cfg m : fec_id (the_oti (c_oti cfg) m) = 0 -> used_oti cfg m = the_oti (c_oti cfg) m.
Proof.
  intros H0. unfold used_oti, filedesc_oti. unfold the_oti in *.
  destruct (m_oti m) as [o|]; rewrite H0; reflexivity.
Qed.

Section Doc.
  Variable cfg : fdt_cfg.
  Variable complete : bool.
  Variable now : Z.
  Variable m : fmeta.
  (* a No-Code session, a No-Code object without content encoding; OTIs as oti.rs builds them *)
  Hypothesis Hs0 : fec_id (c_oti cfg) = 0.
  Hypothesis Hws : oti_wf (c_oti cfg).
  Hypothesis Ho0 : fec_id (the_oti (c_oti cfg) m) = 0.
  Hypothesis Hwo : oti_wf (the_oti (c_oti cfg) m).
  Hypothesis Hce : m_cenc m = 0.
  Hypothesis Hcl : m_clen m < FdtRecv.U64.
  Hypothesis Htl : m_tlen m < FdtRecv.U64.
  Hypothesis Ht : time_in_era now.
  Hypothesis Hexp : spec_expires now (c_dur cfg) < 4294967296.

  Lemma inst_of_model : inst_of_xfdt (get_fdt_instance cfg complete now [m]) = Some (sess_inst cfg now m).
  Proof.
    unfold inst_of_xfdt, get_fdt_instance, instance_gen.
    cbn [xi_expires xi_complete xi_full xi_oti xi_files xi_groups map all_some].
    rewrite Hs0. change (0 =? 6) with false. change (0 =? 1) with false. cbn [orb].
    rewrite (oti_field_attributes _ Hws), (roti_of_nocode _ Hws Hs0).
    rewrite (expiration_model now (c_dur cfg) Ht Hexp).
    rewrite (used_oti_nocode cfg m Ho0).
    unfold file_entry, to_file_xml.
    cbn [xf_loc xf_toi xf_clen xf_tlen xf_ctype xf_cenc xf_md5 xf_oti xf_etag xf_cache xf_groups].
    rewrite Ho0. change (0 =? 6) with false. change (0 =? 1) with false. cbn [orb].
    rewrite !num_attr_dec by assumption. rewrite toi_of_dec, Hce.
    assert (Hfo : oti_field (match m_oti m with Some o => get_attributes o | None => empty_xoti end)
                  = Some (match m_oti m with Some o => Some (nocode_roti o) | None => None end)).
    { unfold the_oti in Ho0, Hwo. destruct (m_oti m) as [o|]; [|exact oti_field_empty].
      rewrite (oti_field_attributes _ Hwo), (roti_of_nocode _ Hwo Ho0). reflexivity. }
    rewrite Hfo.
    assert (Hc : exists rc, cache_of (match m_cache m with Some c => Some (cache_xml c now) | None => None end)
                                     (Some ((spec_expires now (c_dur cfg) - 2208988800) * 1000000)) = Some rc
                            /\ match rc with RNoCache => true | _ => false end
                               = match m_cache m with Some CCNoCache => true | _ => false end).
    { assert (Hx : forall v, exists rc,
                 cache_of (Some (XExpires (dec (v mod 4294967296)))) (Some ((spec_expires now (c_dur cfg) - 2208988800) * 1000000))
                 = Some rc /\ match rc with RNoCache => true | _ => false end = false).
      { intros v. cbn [cache_of]. rewrite parse_dec_dec.
        assert (v mod 4294967296 <? 4294967296 = true) as -> by (apply N.ltb_lt; apply N.mod_lt; lia).
        destruct (v mod 4294967296 <? 2208988800); eexists; split; reflexivity. }
      destruct (m_cache m) as [[| |dd|tt]|]; cbn [cache_xml].
      - eexists. split; reflexivity.
      - eexists. split; reflexivity.
      - apply Hx.
      - apply Hx.
      - eexists. split; reflexivity. }
    destruct Hc as (rc & Erc & Hrc). rewrite Erc, Hrc. reflexivity.
  Qed.

  (* (d) composed with (b): the receiver's oracle, given the bytes the sender model publishes for the object,
     returns the instance [sess_inst]: one entry with the object's TOI, no content encoding, the per-object OTI
     if one was configured, Transfer-Length, Content-MD5, Content-Length, the no-cache flag; the session OTI as
     the instance OTI; Expires in ns *)
  Lemma oracle_on_model_doc : fdt_oracle (fdt_doc cfg complete now m) = Some (sess_inst cfg now m).
  Proof. unfold fdt_doc, fdt_xml. rewrite oracle_printed. exact inst_of_model. Qed.
End Doc.

(* ================= 5. the FDT packet ================= *)
(* a document that fits one symbol of a No-Code OTI is one block of one symbol *)
Lemma single_symbol_partition b L e : 0 < b -> 0 < L -> L <= e -> block_partitioning b L e = (1, 1, 0, 1).
Proof.
  intros Hb HL Hle. unfold block_partitioning.
  destruct (N.eqb_spec b 0) as [|_]; [lia|]. destruct (N.eqb_spec e 0) as [|_]; [lia|]. cbv zeta.
  assert (T : div_ceil L e = 1).
  { unfold div_ceil. destruct (N.eq_dec L e) as [->|Hne].
    - rewrite N.mod_same, N.div_same by lia. reflexivity.
    - rewrite N.mod_small, N.div_small by lia. destruct (N.eqb_spec L 0); [lia|reflexivity]. }
  rewrite T.
  assert (Nn : div_ceil 1 b = 1).
  { unfold div_ceil. destruct (N.eq_dec b 1) as [->|Hne]; [reflexivity|].
    rewrite N.mod_small, N.div_small by lia. reflexivity. }
  rewrite Nn. reflexivity.
Qed.

Lemma fdt_pkt_is_ok id foti sct d :
  ro_fec foti = FNoCode -> 0 < ro_b foti -> 0 < lenN_ d -> lenN_ d <= ro_e foti -> lenN_ d <= 1048576 ->
  ro_e foti < 65536 ->
  fdt_pkt_ok (fdt_pkt id foti sct d) id foti d.
Proof.
  intros Hf Hb H0 Hle Hmax He.
  pose proof (single_symbol_partition (ro_b foti) (lenN_ d) (ro_e foti) Hb H0 Hle) as Hp.
  unfold fdt_pkt_ok. split; [reflexivity|]. split; [reflexivity|]. split; [reflexivity|]. split; [left; reflexivity|].
  split; [unfold nocode_ok, Partition.U64; repeat split; try assumption; lia|]. split; [exact Hmax|].
  split.
  - unfold genuine_pkt, partition_of. rewrite Hp. unfold genuineb, a_pid_with, fdt_pkt. cbn [a_pidbytes a_payload].
    rewrite parse_mk_pid by lia.
    change (0 <? 1) with true. unfold k_of, nominal_syms. change (0 <? 0) with false. change (0 <? 1) with true.
    cbn [andb]. unfold sym_bytes, soff, sym_off, take, drop. change (0 <=? 0) with true.
    change ((0 * 1 + 0) * ro_e foti) with (0 * ro_e foti). rewrite N.mul_0_l. change (N.to_nat 0) with 0%nat.
    cbn [skipn]. rewrite firstn_all2 by (unfold lenN_ in Hle; lia). apply eqb_bytes_refl.
  - apply (covered_recoverable foti (lenN_ d) 1 1 0 1); [exact Hp|].
    intros s i Hs Hi. assert (s = 0) by lia. subst s. unfold k_of, nominal_syms in Hi. change (0 <? 0) with false in Hi. cbv iota in Hi.
    assert (i = 0) by lia. subst i. unfold fdt_pkt. cbn [map]. unfold pid_of, a_pid_with. cbn [a_pidbytes].
    rewrite parse_mk_pid by lia. left. reflexivity.
Qed.

(* the printed document is never empty *)
Lemma fdt_doc_nonempty cfg complete now m : 0 < lenN_ (fdt_doc cfg complete now m).
Proof.
  unfold fdt_doc, fdt_xml, print_fdt, print_fdt_with, bytes_of_str, lenN_. rewrite map_length, app_length.
  change (length xml_decl) with 38%nat. lia.
Qed.

(* ================= 6. the oracle's entry against FdtRecv.recv_meta (what the writer builder is given) ================= *)
Lemma get_oti_valid n o : get_oti b64_decode n = OSome o -> exists f, fec_of_cp (fec_id o) = Some f.
Proof.
  unfold get_oti. destruct (n_id n) as [id|]; [|discriminate]. destruct (n_b n) as [b|]; [|discriminate].
  destruct (n_e n) as [e|]; [|discriminate]. destruct (valid_fec id) eqn:V; [|discriminate].
  destruct (match n_maxn n with Some v => v | None => b end <? b); [discriminate|]. intros [= <-]. cbn [fec_id].
  unfold valid_fec in V. repeat (apply orb_true_iff in V as [V|V]); apply N.eqb_eq in V; subst id; eexists; reflexivity.
Qed.

(* For EVERY parsed instance [i] and file element [f] of it: whenever FdtRecv.recv_meta (attach_fdt + create_meta)
   succeeds with the metadata [r], the oracle's entry for [f] exists and carries the same transfer length,
   content length, MD5, content encoding, no-cache flag and (file OTI, else instance OTI) as [r] *)
Lemma entry_agrees_with_recv_meta i f r io :
  recv_meta b64_decode i f = MOk r -> oti_field (xi_oti i) = Some io ->
  exists ff, file_entry (expiration_us (xi_expires i)) f = Some ff
    /\ ff_toi ff = toi_of_str (xf_toi f)
    /\ ff_cenc ff = cenc_of_N (FdtRecv.r_cenc r)
    /\ FdtRecv.r_tlen r = Some (ff_tlen ff)
    /\ ff_clen ff = FdtRecv.r_clen r
    /\ ff_md5 ff = option_map bytes_of_str (FdtRecv.r_md5 r)
    /\ ff_nocache ff = match FdtRecv.r_cache r with RNoCache => true | _ => false end
    /\ match ff_oti ff with Some x => Some x | None => io end
       = match FdtRecv.r_oti r with Some o => roti_of o | None => None end.
Proof.
  unfold recv_meta, file_entry, oti_field. intros H Hio.
  destruct (num_attr FdtRecv.U64 (xf_clen f)) as [clen|]; [|discriminate].
  destruct (num_attr FdtRecv.U64 (xf_tlen f)) as [tlen|]; [|discriminate].
  destruct (de_oti (xf_oti f)) as [fo|]; [|discriminate].
  destruct (de_oti (xi_oti i)) as [io0|]; [|discriminate].
  destruct (cache_of (xf_cache f) (expiration_us (xi_expires i))) as [cache|]; [|discriminate].
  destruct (get_oti b64_decode fo) as [| |o] eqn:Gf.
  - discriminate.
  - destruct (get_oti b64_decode io0) as [| |o'] eqn:Gi; [discriminate| |];
      inversion H; subst r; inversion Hio; subst io; eexists; repeat split.
  - inversion H; subst r. eexists. repeat split.
    cbn [ff_oti FdtRecv.r_oti]. destruct (get_oti_valid _ _ Gf) as (k & Hk). unfold roti_of. rewrite Hk. reflexivity.
Qed.

(* ---------- the writer's metadata in the vocabulary of the executable C01 predicate (Spec/SessionSpec.v) ---------- *)
Definition cache_code (r : rcache) : N * N :=
  match r with
  | RNoCache => (0, 0) | RMaxStale => (1, 0) | RExpiresAt us => (2, us / 1000000) | RExpiresAtHint _ => (3, 0)
  end.
Definition ometa_of_rmeta (r : rmeta) : ometa :=
  mk_ometa (bytes_of_str (r_loc r)) (option_map bytes_of_str (r_ctype r)) (FdtRecv.r_clen r) (FdtRecv.r_tlen r)
           (option_map bytes_of_str (FdtRecv.r_md5 r)) (map bytes_of_str (r_groups r))
           (option_map bytes_of_str (r_etag r)) (cache_code (FdtRecv.r_cache r)).
(* what the sender was given, in the same vocabulary: location, type, lengths, MD5, session groups then object
   groups, ETag, cache directive (expiry in whole seconds since 1970; none given = hint from the FDT expiry) *)
Definition given_cache (now : Z) (c : option cachectl) : N * N :=
  match c with
  | Some CCNoCache => (0, 0)
  | Some CCMaxStale => (1, 0)
  | Some (CCExpires d) => (2, spec_ntp_secs (now + d) mod 4294967296 - 2208988800)
  | Some (CCExpiresAt t) => (2, spec_ntp_secs t mod 4294967296 - 2208988800)
  | None => (3, 0)
  end.
Definition ometa_given (cfg : fdt_cfg) (now : Z) (m : fmeta) : ometa :=
  mk_ometa (bytes_of_str (m_loc m)) (Some (bytes_of_str (FdtInst.m_ctype m))) (Some (FdtInst.m_clen m)) (Some (FdtInst.m_tlen m))
           (option_map bytes_of_str (FdtInst.m_md5 m))
           (map bytes_of_str (groups_list (c_groups cfg) ++ groups_list (FdtInst.m_groups m)))
           (option_map bytes_of_str (FdtInst.m_etag m)) (given_cache now (FdtInst.m_cache m)).

Lemma ostr_eqb_eq a b : ostr_eqb a b = true -> a = b.
Proof. destruct a, b; cbn [ostr_eqb]; intros H; try discriminate; [apply str_eqb_eq in H; subst|]; reflexivity. Qed.
Lemma strs_eqb_eq a : forall b, strs_eqb a b = true -> a = b.
Proof.
  induction a as [|x a IH]; intros [|y b] H; cbn [strs_eqb] in H; try discriminate; [reflexivity|].
  apply andb_true_iff in H. destruct H as [H1 H2]. apply str_eqb_eq in H1. subst y. f_equal. apply IH. exact H2.
Qed.
Lemma oN_is_eq o n : oN_is o n = true -> o = Some n.
Proof. destruct o as [v|]; cbn [oN_is]; intros H; [apply N.eqb_eq in H; subst; reflexivity|discriminate]. Qed.

Lemma rcache_matches_code rc c now dur : rcache_matches rc c now dur = true -> cache_code rc = given_cache now c.
Proof.
  unfold rcache_matches, ntp_secs_to_us. destruct c as [[| |d|t]|]; destruct rc as [| |us|us]; intros H; try discriminate;
    try reflexivity; apply N.eqb_eq in H; subst us; cbn [cache_code given_cache]; rewrite N.div_mul by lia; reflexivity.
Qed.

(* P_C10_meta (every field of ObjectMetadata compared with what the sender was given) implies equality in the
   vocabulary of P_C01_object *)
Lemma meta_given_eq cfg now m r : P_C10_meta cfg false now m r = true -> ometa_of_rmeta r = ometa_given cfg now m.
Proof.
  unfold P_C10_meta. intros H.
  repeat (apply andb_true_iff in H; let X := fresh "X" in destruct H as [H X]).
  apply str_eqb_eq in H. apply oN_is_eq in X7, X6. apply ostr_eqb_eq in X5, X2, X. apply strs_eqb_eq in X3.
  apply rcache_matches_code in X4.
  destruct r as [loc clen tlen ctype cache groups md5 oti cenc etag].
  cbn [r_loc FdtRecv.r_clen FdtRecv.r_tlen r_ctype FdtRecv.r_cache r_groups FdtRecv.r_md5 r_etag] in *.
  unfold ometa_of_rmeta, ometa_given.
  cbn [r_loc FdtRecv.r_clen FdtRecv.r_tlen r_ctype FdtRecv.r_cache r_groups FdtRecv.r_md5 r_etag].
  subst. rewrite X4. reflexivity.
Qed.

(* ================= 7. the composition ================= *)
Definition obj_roti (cfg : fdt_cfg) (m : fmeta) : roti := nocode_roti (the_oti (c_oti cfg) m).
Definition obj_md5 (m : fmeta) : option (list N) := option_map bytes_of_str (FdtInst.m_md5 m).
(* the FDT packet of the session: the published document, sent with the session OTI *)
Definition sess_fdt_pkt (cfg : fdt_cfg) (complete : bool) (now : Z) (m : fmeta) (id : N) (sct : option Z) : apkt :=
  fdt_pkt id (nocode_roti (c_oti cfg)) sct (fdt_doc cfg complete now m).
(* the wire packets of one uninterrupted transfer of the object, with EXT_FTI on every packet or on none *)
Definition obj_wire rep raptor_src (cfg : fdt_cfg) (m : fmeta) (window : nat) (closable debug : bool) (content : list N)
  (fti : bool) : list apkt :=
  let w := wire_pkts rep raptor_src (obj_ecfg cfg m window closable debug) content (m_toi m) in
  if fti then map (add_fti (obj_roti cfg m) (lenN_ content)) w else w.

(* the sender side: a No-Code session OTI, one accepted non-empty No-Code object without content encoding,
   published at [now] *)
Definition sender_ok (cfg : fdt_cfg) (now : Z) (m : fmeta) (content : list N) : Prop :=
  fec_id (c_oti cfg) = 0 /\ oti_wf (c_oti cfg) /\ 0 < max_sbl (c_oti cfg)
  /\ fec_id (the_oti (c_oti cfg) m) = 0 /\ oti_wf (the_oti (c_oti cfg) m) /\ m_cenc m = 0
  /\ filedesc_accepts (obj_ecfg cfg m 1 false false) = true
  /\ FdtInst.m_tlen m = lenN content /\ 0 < FdtInst.m_tlen m /\ m_toi m <> 0 /\ FdtInst.m_clen m < FdtRecv.U64
  /\ time_in_era now /\ spec_expires now (c_dur cfg) < 4294967296 /\ meta_ok cfg now m.

(* the document fits one packet of the session and the FDT receiver's limit *)
Definition doc_fits (cfg : fdt_cfg) (complete : bool) (now : Z) (m : fmeta) : Prop :=
  lenN_ (fdt_doc cfg complete now m) <= esl (c_oti cfg) /\ lenN_ (fdt_doc cfg complete now m) <= 1048576.

(* the receiver side: the environment of C02_nocode_recoverable_delivers, and the instance is not expired when it
   arrives (no expiry check, or Expires not before the sender's clock: EXT_TIME of the FDT packet, else the
   receiver's clock) *)
Definition receiver_ok (E : env) (rcfg : rconfig) (nowr : Z) (sct : option Z) (cfg : fdt_cfg) (now : Z) (m : fmeta)
  (content : list N) : Prop :=
  writer_accepts E (m_toi m) /\ writes_succeed E (m_toi m) /\ md5_good E content (obj_md5 m)
  /\ lenN_ content <= cf_max_cache rcfg /\ nb_blocks_of (obj_roti cfg m) (lenN_ content) <= 4097
  /\ (cf_exp_check rcfg = false \/ (match sct with Some t => t | None => nowr end <= expiry_ns cfg now)%Z).

(* what the session has done when the run ends: the delivery (session_delivered of Proofs/C02Session.v: writer
   (toi,0) got open, writes = content, one complete; receive-once bookkeeping), and the metadata: the reference
   parser reads the instance [x] the sender model built from the document, flute's receiver (FdtRecv.recv_meta:
   attach_fdt + create_meta) computes from [x] and the object's File element the ObjectMetadata [rm] it hands to
   the writer builder, and [rm] is what the sender was given (P_C10_meta: location, lengths, type, cache directive
   or FDT-expiry hint, session + object groups, MD5, OTI in use, encoding, ETag); in the vocabulary of the
   executable C01 predicate: one completed copy, byte-exact, with the given metadata *)
Definition session_meta_delivered (cfg : fdt_cfg) (complete : bool) (now : Z) (m : fmeta) (content : list N)
  (rcfg : rconfig) (r : recv) (cx : ObjRecv.ctx) : Prop :=
  session_delivered rcfg (sess_inst cfg now m) content (m_toi m) r cx
  /\ Xml.parse_fdt (str_of_bytes (fdt_doc cfg complete now m)) = Some (get_fdt_instance cfg complete now [m])
  /\ fdt_oracle (fdt_doc cfg complete now m) = Some (sess_inst cfg now m)
  /\ exists rm,
       recv_meta b64_decode (get_fdt_instance cfg complete now [m]) (to_file_xml (used_oti cfg m) m now) = MOk rm
       /\ P_C10_meta cfg false now m rm = true
       /\ ometa_of_rmeta rm = ometa_given cfg now m
       /\ P_C01_object (ometa_given cfg now m) content 1
                       [(ometa_of_rmeta rm, calls_of (m_toi m, 0%nat) (c_log cx))] = true.

Lemma add_fti_pid o L p : pid_of (add_fti o L p) = pid_of p.
Proof. reflexivity. Qed.
Lemma add_fti_genuine oti content o L p : genuine_pkt oti content (add_fti o L p) = genuine_pkt oti content p.
Proof. unfold genuine_pkt. destruct (partition_of oti (lenN_ content)) as [[[al as_] nal] n]. reflexivity. Qed.
Lemma to_apkt_toi toi p : a_toi (C01Full.to_apkt toi p) = toi.
Proof. reflexivity. Qed.

Lemma recoverable_pids oti L l l' : map pid_of l = map pid_of l' -> recoverable oti L l = recoverable oti L l'.
Proof. unfold recoverable. intros ->. reflexivity. Qed.

Section Compose.
  Variable rep : fec -> N -> list N -> N -> N -> list (list N).
  Variable raptor_src : list N -> N -> option (list (list N)).
  Variable cfg : fdt_cfg.
  Variable complete : bool.
  Variable now : Z.
  Variable m : fmeta.
  Variable content : list N.
  Variable E : env.
  Variable rcfg : rconfig.
  Variable nowr : Z.
  Variable id : N.
  Variable sct : option Z.
  Hypothesis HS : sender_ok cfg now m content.
  Hypothesis HD : doc_fits cfg complete now m.
  Hypothesis HR : receiver_ok E rcfg nowr sct cfg now m content.

  Notation toi := (m_toi m).
  Notation oti := (obj_roti cfg m).
  Notation L := (lenN_ content).
  Notation pf := (sess_fdt_pkt cfg complete now m id sct).

  (* ---- the object's packets ---- *)
  Lemma obj_wire_facts window closable debug fti : (1 <= window)%nat ->
    let w := obj_wire rep raptor_src cfg m window closable debug content fti in
    nocode_ok oti L
    /\ Forall (fun p => a_toi p = toi) w
    /\ Forall (fun p => genuine_pkt oti content p = true) w
    /\ (forall pre, recoverable oti L (pre ++ w) = true)
    /\ exists body lst, w = body ++ [lst] /\ Forall (fun q => a_close_obj q = false) body /\ a_close_obj lst = closable.
  Proof.
    intros Hw. destruct HS as (_ & _ & _ & Ho0 & Hwo & _ & Hacc & Hlen & Hl & _).
    destruct HR as (_ & _ & _ & Hmax & Hnb & _).
    set (c := obj_ecfg cfg m window closable debug).
    assert (Hfec : c_fec c = NoCode) by reflexivity.
    assert (Hacc' : filedesc_accepts c = true) by exact Hacc.
    assert (Hlen' : c_tlen c = lenN content) by exact Hlen.
    assert (Hl' : 0 < c_tlen c) by exact Hl.
    assert (Hw' : (1 <= c_window c)%nat) by exact Hw.
    assert (He16 : c_e c < 65536) by (destruct Hwo as (_ & _ & _ & He & _); exact He).
    assert (Hoti : C01Full.oti_matches c oti) by (repeat split).
    assert (Hmax' : c_tlen c <= cf_max_cache rcfg) by (rewrite Hlen'; exact Hmax).
    assert (Hnb' : nb_blocks_of oti (c_tlen c) <= 4097) by (rewrite Hlen'; exact Hnb).
    pose proof (Hok c content oti (cf_max_cache rcfg) Hfec Hacc' Hlen' Hl' Hw' He16 Hoti Hmax' Hnb') as Hnok.
    destruct (wire_facts rep raptor_src c content oti toi Hfec Hacc' Hlen' Hl' Hw' (accepts_esi_fits c Hfec Hacc' Hl') Hoti)
      as (G & Rec & body & lst & Ew & Fb & Cl).
    assert (T : Forall (fun p => a_toi p = toi) (wire_pkts rep raptor_src c content toi)).
    { unfold wire_pkts. apply Forall_forall. intros p Hp. apply in_map_iff in Hp. destruct Hp as (q & <- & _). reflexivity. }
    cbv zeta. split; [exact Hnok|]. unfold obj_wire. fold c. destruct fti.
    - split; [|split; [|split]].
      + apply Forall_forall. intros p Hp. apply in_map_iff in Hp. destruct Hp as (q & <- & Hq).
        rewrite Forall_forall in T. exact (T q Hq).
      + apply Forall_forall. intros p Hp. apply in_map_iff in Hp. destruct Hp as (q & <- & Hq).
        rewrite add_fti_genuine. rewrite Forall_forall in G. exact (G q Hq).
      + intros pre. rewrite (recoverable_pids oti L _ (pre ++ wire_pkts rep raptor_src c content toi)).
        * apply Rec. apply incl_appr, incl_refl.
        * rewrite !map_app, map_map. f_equal.
      + exists (map (add_fti oti L) body), (add_fti oti L lst). split; [rewrite Ew, map_app; reflexivity|]. split; [|exact Cl].
        apply Forall_forall. intros p Hp. apply in_map_iff in Hp. destruct Hp as (q & <- & Hq).
        rewrite Forall_forall in Fb. exact (Fb q Hq).
    - split; [exact T|]. split; [exact G|]. split; [intros pre; apply Rec; apply incl_appr, incl_refl|].
      exists body, lst. repeat split; assumption.
  Qed.

  (* ---- the FDT side ---- *)
  Lemma tlen_u64 : FdtInst.m_tlen m < FdtRecv.U64.
  Proof.
    destruct (obj_wire_facts 1 false false false (le_n 1)) as ((_ & _ & _ & _ & Hu) & _).
    destruct HS as (_ & _ & _ & _ & _ & _ & _ & Hlen & _). rewrite Hlen.
    change (lenN content) with (lenN_ content). unfold Partition.U64 in Hu. unfold FdtRecv.U64. lia.
  Qed.

  Lemma sess_oracle : fdt_oracle (fdt_doc cfg complete now m) = Some (sess_inst cfg now m).
  Proof.
    pose proof tlen_u64 as Htl.
    destruct HS as (Hs0 & Hws & _ & Ho0 & Hwo & Hce & _ & _ & _ & _ & Hcl & Ht & Hexp & _).
    apply oracle_on_model_doc; assumption.
  Qed.

  Lemma sess_pf_ok : fdt_pkt_ok pf id (nocode_roti (c_oti cfg)) (fdt_doc cfg complete now m).
  Proof.
    destruct HS as (_ & Hws & Hb & _). destruct HD as [D1 D2]. destruct Hws as (_ & _ & _ & He & _).
    apply fdt_pkt_is_ok; try assumption; [reflexivity|apply fdt_doc_nonempty].
  Qed.

  Lemma sess_live : fdt_live rcfg (sess_inst cfg now m) pf nowr.
  Proof.
    destruct HR as (_ & _ & _ & _ & _ & [Hc|Hx]); [left; exact Hc|right].
    exists (expiry_ns cfg now). split; [reflexivity|]. unfold sess_fdt_pkt, fdt_pkt. cbn [a_sct]. apply Z.ltb_ge. exact Hx.
  Qed.

  Lemma sess_entry : fdt_entry_for (fi_files (sess_inst cfg now m)) (fi_oti (sess_inst cfg now m)) toi oti L (obj_md5 m).
  Proof.
    destruct HS as (_ & _ & _ & _ & _ & _ & _ & Hlen & _).
    exists (sess_ff m). cbn [sess_inst fi_files fi_oti find sess_ff ff_toi]. rewrite N.eqb_refl.
    split; [reflexivity|]. split; [reflexivity|]. split; [|split; [exact Hlen|reflexivity]].
    unfold sess_ff, obj_roti, the_oti. cbn [ff_oti]. destruct (FdtInst.m_oti m); reflexivity.
  Qed.

  (* ---- the metadata ---- *)
  Lemma sess_meta (cx : ObjRecv.ctx) :
    (forall mm, complete_exact content (mm, calls_of (toi, 0%nat) (c_log cx)) = true) ->
    Xml.parse_fdt (str_of_bytes (fdt_doc cfg complete now m)) = Some (get_fdt_instance cfg complete now [m])
    /\ exists rm,
       recv_meta b64_decode (get_fdt_instance cfg complete now [m]) (to_file_xml (used_oti cfg m) m now) = MOk rm
       /\ P_C10_meta cfg false now m rm = true
       /\ ometa_of_rmeta rm = ometa_given cfg now m
       /\ P_C01_object (ometa_given cfg now m) content 1
                       [(ometa_of_rmeta rm, calls_of (toi, 0%nat) (c_log cx))] = true.
  Proof.
    intros Hex. pose proof tlen_u64 as Htl.
    destruct HS as (Hs0 & Hws & _ & Ho0 & Hwo & Hce & _ & _ & _ & _ & Hcl & Ht & Hexp & Hmeta).
    split; [unfold fdt_doc, fdt_xml; rewrite str_bytes_roundtrip; apply xml_roundtrip|].
    destruct (receiver_meta_from_fdt b64_decode b64_decode_b64 cfg complete now [m] m Ht Hexp Hmeta Hws Hwo Hcl Htl)
      as (rm & E1 & E2).
    exists rm. split; [exact E1|]. split; [exact E2|]. pose proof (meta_given_eq cfg now m rm E2) as E3.
    split; [exact E3|]. rewrite E3. apply exact_once. apply Hex.
  Qed.

  (* T (C01, session level): the FDT packet, then one whole transfer *)
  Theorem session_clean_channel window closable debug fti : (1 <= window)%nat ->
    let '(_, r, cx) := recv_run E fdt_oracle rcfg recv0
                         (map (fun p => RvPush p nowr) (pf :: obj_wire rep raptor_src cfg m window closable debug content fti)) ctx0 in
    session_meta_delivered cfg complete now m content rcfg r cx.
  Proof.
    intros Hw. destruct (obj_wire_facts window closable debug fti Hw) as (Hnok & T & G & Rec & body & lst & Ew & Fb & Cl).
    cbv zeta in Hnok, T, G, Rec, Ew. set (w := obj_wire rep raptor_src cfg m window closable debug content fti) in *.
    pose proof HS as (_ & _ & _ & _ & _ & _ & _ & _ & _ & Htoi & _).
    pose proof HR as (Hwa & Hws & Hmd5 & Hmax & Hnb & _).
    pose proof (session_fdt_first_delivers E fdt_oracle rcfg oti content toi (obj_md5 m) nowr pf id (nocode_roti (c_oti cfg))
                  (fdt_doc cfg complete now m) (sess_inst cfg now m) w Hnok Htoi sess_pf_ok sess_oracle sess_live sess_entry
                  Hwa Hws Hmd5 Hmax Hnb T G) as D.
    assert (Cf : close_flag_ok oti L w).
    { rewrite Ew. apply close_flag_ok_last; [exact Fb|]. rewrite <- Ew. exact (Rec []). }
    specialize (D Cf (Rec [])).
    destruct (recv_run E fdt_oracle rcfg recv0 (map (fun p => RvPush p nowr) (pf :: w)) ctx0) as [[xs r] cx].
    split; [exact D|]. destruct D as (_ & Hex & _). destruct (sess_meta cx Hex) as [P M].
    split; [exact P|]. split; [exact sess_oracle|exact M].
  Qed.

  (* C16, session level: any genuine packets of the object carrying EXT_FTI, no EXT_CENC, no close-object flag
     (what a late joiner catches of earlier cycles), then the FDT packet, then one whole transfer *)
  Theorem session_late_join_general window closable debug fti pre : (1 <= window)%nat ->
    Forall (fun p => a_toi p = toi) pre ->
    Forall (fun p => genuine_pkt oti content p = true) pre ->
    Forall (fun p => a_oti p = Some (oti, L) /\ a_cenc p = None /\ a_close_obj p = false) pre ->
    let '(_, r, cx) := recv_run E fdt_oracle rcfg recv0
                         (map (fun p => RvPush p nowr)
                              (pre ++ pf :: obj_wire rep raptor_src cfg m window closable debug content fti)) ctx0 in
    session_meta_delivered cfg complete now m content rcfg r cx.
  Proof.
    intros Hw Tp Gp Pp. destruct (obj_wire_facts window closable debug fti Hw) as (Hnok & T & G & Rec & body & lst & Ew & Fb & Cl).
    cbv zeta in Hnok, T, G, Rec, Ew. set (w := obj_wire rep raptor_src cfg m window closable debug content fti) in *.
    pose proof HS as (_ & _ & _ & _ & _ & _ & _ & _ & _ & Htoi & _).
    pose proof HR as (Hwa & Hws & Hmd5 & Hmax & Hnb & _).
    assert (Fp : Forall (fun q => a_close_obj q = false) pre).
    { rewrite Forall_forall in *. intros q Hq. apply (Pp q Hq). }
    assert (Cf : close_flag_ok oti L (pre ++ w)).
    { rewrite Ew, app_assoc. apply close_flag_ok_last; [apply Forall_app; split; assumption|].
      rewrite <- app_assoc, <- Ew. exact (Rec pre). }
    pose proof (session_fdt_late_delivers E fdt_oracle rcfg oti content toi (obj_md5 m) nowr pf id (nocode_roti (c_oti cfg))
                  (fdt_doc cfg complete now m) (sess_inst cfg now m) pre w Hnok Htoi sess_pf_ok sess_oracle sess_live sess_entry
                  Hwa Hws Hmd5 Hmax Hnb (proj2 (Forall_app _ _ _) (conj Tp T)) (proj2 (Forall_app _ _ _) (conj Gp G))
                  Pp Cf (Rec pre)) as D.
    destruct (recv_run E fdt_oracle rcfg recv0 (map (fun p => RvPush p nowr) (pre ++ pf :: w)) ctx0) as [[xs r] cx].
    split; [exact D|]. destruct D as (_ & Hex & _). destruct (sess_meta cx Hex) as [P M].
    split; [exact P|]. split; [exact sess_oracle|exact M].
  Qed.

  (* C16 corollary: the receiver joins at ANY packet offset j of a carousel transfer (in-band FTI, no close flag),
     receives the rest of it, then the FDT packet, then one whole further transfer (carousel or last, with or
     without in-band FTI) *)
  Theorem session_late_join window1 debug1 (j : nat) window closable debug fti : (1 <= window1)%nat -> (1 <= window)%nat ->
    let '(_, r, cx) := recv_run E fdt_oracle rcfg recv0
                         (map (fun p => RvPush p nowr)
                              (skipn j (obj_wire rep raptor_src cfg m window1 false debug1 content true)
                               ++ pf :: obj_wire rep raptor_src cfg m window closable debug content fti)) ctx0 in
    session_meta_delivered cfg complete now m content rcfg r cx.
  Proof.
    intros Hw1 Hw. destruct (obj_wire_facts window1 false debug1 true Hw1) as (_ & T & G & _ & body & lst & Ew & Fb & Cl).
    cbv zeta in T, G, Ew. set (w1 := obj_wire rep raptor_src cfg m window1 false debug1 content true) in *.
    assert (Sub : forall P : apkt -> Prop, Forall P w1 -> Forall P (skipn j w1)).
    { intros P F. rewrite <- (firstn_skipn j w1) in F. apply Forall_app in F. apply F. }
    apply session_late_join_general; [exact Hw|apply Sub; exact T|apply Sub; exact G|apply Sub].
    assert (Fc : Forall (fun q => a_close_obj q = false) w1).
    { rewrite Ew. apply Forall_app. split; [exact Fb|]. constructor; [exact Cl|constructor]. }
    unfold w1, obj_wire in Fc |- *. apply Forall_forall. intros p Hp. apply in_map_iff in Hp. destruct Hp as (q & <- & Hq).
    split; [reflexivity|]. rewrite Forall_forall in Fc. split; [|apply (Fc (add_fti oti L q)); apply in_map; exact Hq].
    unfold wire_pkts in Hq. apply in_map_iff in Hq. destruct Hq as (q0 & <- & _). reflexivity.
  Qed.

  (* D44: the same without the premise "no close-object flag before the FDT packet": a flag on a packet of [pre] is
     ignored (the object has no writer yet) *)
  Theorem session_late_join_general_any_flag_before_fdt window closable debug fti pre : (1 <= window)%nat ->
    Forall (fun p => a_toi p = toi) pre ->
    Forall (fun p => genuine_pkt oti content p = true) pre ->
    Forall (fun p => a_oti p = Some (oti, L) /\ a_cenc p = None) pre ->
    let '(_, r, cx) := recv_run E fdt_oracle rcfg recv0
                         (map (fun p => RvPush p nowr)
                              (pre ++ pf :: obj_wire rep raptor_src cfg m window closable debug content fti)) ctx0 in
    session_meta_delivered cfg complete now m content rcfg r cx.
  Proof.
    intros Hw Tp Gp Pp. destruct (obj_wire_facts window closable debug fti Hw) as (Hnok & T & G & Rec & body & lst & Ew & Fb & Cl).
    cbv zeta in Hnok, T, G, Rec, Ew. set (w := obj_wire rep raptor_src cfg m window closable debug content fti) in *.
    pose proof HS as (_ & _ & _ & _ & _ & _ & _ & _ & _ & Htoi & _).
    pose proof HR as (Hwa & Hws & Hmd5 & Hmax & Hnb & _).
    assert (Cf : close_flag_ok_after (recoverable oti L) pre w).
    { rewrite Ew. apply close_flag_ok_after_last; [exact Fb|]. rewrite <- Ew. exact (Rec pre). }
    pose proof (session_fdt_late_delivers_any_flag_before_fdt E fdt_oracle rcfg oti content toi (obj_md5 m) nowr pf id (nocode_roti (c_oti cfg))
                  (fdt_doc cfg complete now m) (sess_inst cfg now m) pre w Hnok Htoi sess_pf_ok sess_oracle sess_live sess_entry
                  Hwa Hws Hmd5 Hmax Hnb (proj2 (Forall_app _ _ _) (conj Tp T)) (proj2 (Forall_app _ _ _) (conj Gp G))
                  Pp Cf (Rec pre)) as D.
    destruct (recv_run E fdt_oracle rcfg recv0 (map (fun p => RvPush p nowr) (pre ++ pf :: w)) ctx0) as [[xs r] cx].
    split; [exact D|]. destruct D as (_ & Hex & _). destruct (sess_meta cx Hex) as [P M].
    split; [exact P|]. split; [exact sess_oracle|exact M].
  Qed.

  (* the receiver joins at ANY packet offset j of a transfer with in-band FTI - carousel or LAST (closable1: the
     close-object flag on its last packet) -, then the FDT packet, then one whole further transfer *)
  Theorem session_late_join_any_flag_before_fdt window1 closable1 debug1 (j : nat) window closable debug fti :
    (1 <= window1)%nat -> (1 <= window)%nat ->
    let '(_, r, cx) := recv_run E fdt_oracle rcfg recv0
                         (map (fun p => RvPush p nowr)
                              (skipn j (obj_wire rep raptor_src cfg m window1 closable1 debug1 content true)
                               ++ pf :: obj_wire rep raptor_src cfg m window closable debug content fti)) ctx0 in
    session_meta_delivered cfg complete now m content rcfg r cx.
  Proof.
    intros Hw1 Hw. destruct (obj_wire_facts window1 closable1 debug1 true Hw1) as (_ & T & G & _).
    cbv zeta in T, G. set (w1 := obj_wire rep raptor_src cfg m window1 closable1 debug1 content true) in *.
    assert (Sub : forall P : apkt -> Prop, Forall P w1 -> Forall P (skipn j w1)).
    { intros P F. rewrite <- (firstn_skipn j w1) in F. apply Forall_app in F. apply F. }
    apply session_late_join_general_any_flag_before_fdt; [exact Hw|apply Sub; exact T|apply Sub; exact G|apply Sub].
    unfold w1, obj_wire. apply Forall_forall. intros p Hp. apply in_map_iff in Hp. destruct Hp as (q & <- & Hq).
    split; [reflexivity|].
    unfold wire_pkts in Hq. apply in_map_iff in Hq. destruct Hq as (q0 & <- & _). reflexivity.
  Qed.
End Compose.

Print Assumptions session_clean_channel.
Print Assumptions session_late_join_general_any_flag_before_fdt.
Print Assumptions session_late_join_any_flag_before_fdt.
Print Assumptions session_late_join_general.
Print Assumptions session_late_join.

(* the vocabulary of the theorems, unfolded once *)
Lemma session_statements cfg complete now m content E rcfg nowr sct r cx :
  (sender_ok cfg now m content <->
   fec_id (c_oti cfg) = 0 /\ oti_wf (c_oti cfg) /\ 0 < max_sbl (c_oti cfg)
   /\ fec_id (the_oti (c_oti cfg) m) = 0 /\ oti_wf (the_oti (c_oti cfg) m) /\ m_cenc m = 0
   /\ filedesc_accepts (mk_ecfg NoCode (esl (the_oti (c_oti cfg) m)) (max_sbl (the_oti (c_oti cfg) m))
                                (parity (the_oti (c_oti cfg) m)) 1 false (FdtInst.m_tlen m) false) = true
   /\ FdtInst.m_tlen m = lenN content /\ 0 < FdtInst.m_tlen m /\ m_toi m <> 0 /\ FdtInst.m_clen m < 18446744073709551616
   /\ time_in_era now /\ spec_expires now (c_dur cfg) < 4294967296 /\ meta_ok cfg now m)
  /\ (doc_fits cfg complete now m <->
      lenN_ (bytes_of_str (fdt_xml cfg complete now [m])) <= esl (c_oti cfg)
      /\ lenN_ (bytes_of_str (fdt_xml cfg complete now [m])) <= 1048576)
  /\ (receiver_ok E rcfg nowr sct cfg now m content <->
      writer_accepts E (m_toi m) /\ writes_succeed E (m_toi m)
      /\ md5_good E content (option_map bytes_of_str (FdtInst.m_md5 m))
      /\ lenN_ content <= cf_max_cache rcfg
      /\ nb_blocks_of (mk_roti FNoCode (esl (the_oti (c_oti cfg) m)) (max_sbl (the_oti (c_oti cfg) m))
                               (parity (the_oti (c_oti cfg) m)) None) (lenN_ content) <= 4097
      /\ (cf_exp_check rcfg = false
          \/ (match sct with Some t => t | None => nowr end
              <= Z.of_N ((spec_expires now (c_dur cfg) - 2208988800) * 1000000) * 1000)%Z))
  /\ (session_meta_delivered cfg complete now m content rcfg r cx <->
      session_delivered rcfg (sess_inst cfg now m) content (m_toi m) r cx
      /\ Xml.parse_fdt (str_of_bytes (fdt_doc cfg complete now m)) = Some (get_fdt_instance cfg complete now [m])
      /\ fdt_oracle (fdt_doc cfg complete now m) = Some (sess_inst cfg now m)
      /\ exists rm,
           recv_meta b64_decode (get_fdt_instance cfg complete now [m]) (to_file_xml (used_oti cfg m) m now) = MOk rm
           /\ P_C10_meta cfg false now m rm = true
           /\ ometa_of_rmeta rm = ometa_given cfg now m
           /\ P_C01_object (ometa_given cfg now m) content 1
                           [(ometa_of_rmeta rm, calls_of (m_toi m, 0%nat) (c_log cx))] = true).
Proof. split; [reflexivity|]. split; [reflexivity|]. split; reflexivity. Qed.

(* ================= 8. the concrete session ================= *)
Definition exs_log : list wev :=
  [EvBuilder 7 WStore; EvOpen (7, 0%nat) true; EvWrite (7, 0%nat) [1; 2; 3; 4] true; EvWrite (7, 0%nat) [5] true;
   EvComplete (7, 0%nat)].

(* the document is 600-odd real XML bytes from the printer; the oracle reads the instance back; FDT packet then
   the 3 packets of the transfer (last transfer / carousel, without / with EXT_FTI): delivered, receive-once
   bookkeeping done *)
Example exs_computed :
  (lenN_ exs_doc <=? 1400) = true
  /\ firstn 5 exs_doc = [60; 63; 120; 109; 108]
  /\ fdt_oracle exs_doc = Some (sess_inst exs_cfg exs_now exs_m)
  /\ map pid_of (exs_wire false) = [(0, 0); (1, 0); (0, 1)]
  /\ exs_run (exs_pf :: exs_wire true) = ([POk; POk; POk; POk], [], [7], [], exs_log)
  /\ exs_run (exs_pf :: map (add_fti ex_oti 5) (exs_wire false)) = ([POk; POk; POk; POk], [], [7], [], exs_log)
  /\ forallb (fun j => match exs_run (skipn j (map (add_fti ex_oti 5) (exs_wire false)) ++ exs_pf :: exs_wire false) with
                       | (_, [], [7], [], l) => list_eqb (fun a b => match a, b with
                                                                    | EvWrite _ x _, EvWrite _ y _ => eqb_bytes x y
                                                                    | EvBuilder _ _, EvBuilder _ _ | EvOpen _ _, EvOpen _ _
                                                                    | EvComplete _, EvComplete _ => true
                                                                    | _, _ => false end) l exs_log
                       | _ => false end) [0; 1; 2; 3; 4]%nat = true.
Proof. vm_compute. repeat split. Qed.

(* the metadata the receiver computes from the parsed document is what the sender was given *)
Example exs_meta_computed :
  match Xml.parse_fdt (str_of_bytes exs_doc) with
  | Some x => match xi_files x with
              | [f] => match recv_meta b64_decode x f with
                       | MOk rm => P_C10_meta exs_cfg false exs_now exs_m rm
                                   && meta_eqb (ometa_given exs_cfg exs_now exs_m) (ometa_of_rmeta rm)
                       | _ => false
                       end
              | _ => false
              end
  | None => false
  end = true.
Proof. vm_compute. reflexivity. Qed.

Lemma exs_sender_ok : sender_ok exs_cfg exs_now exs_m ex_content.
Proof.
  assert (W1 : oti_wf exs_session) by (vm_compute; repeat split; discriminate).
  assert (W2 : oti_wf (mk_oti 0 0 2 2 0 SchNone)) by (vm_compute; repeat split; discriminate).
  assert (T : forall t, (0 <= t)%Z -> (t < 2000000000000000000)%Z -> time_in_era t).
  { intros t H0 H1. split; [exact H0|]. unfold NTP_UNIX_OFFSET, TWO32.
    assert (Z.to_N t / 1000000000 < 2000000000); [|lia].
    apply N.div_lt_upper_bound; [lia|]. lia. }
  unfold sender_ok. split; [reflexivity|]. split; [exact W1|]. split; [reflexivity|]. split; [reflexivity|].
  split; [exact W2|]. split; [reflexivity|]. split; [vm_compute; reflexivity|]. split; [reflexivity|].
  split; [reflexivity|]. split; [discriminate|]. split; [reflexivity|].
  split; [apply T; vm_compute; [discriminate|reflexivity]|]. split; [vm_compute; reflexivity|].
  split; [vm_compute; discriminate|]. split; [vm_compute; discriminate|].
  cbn [exs_m FdtInst.m_cache]. apply T; vm_compute; [discriminate|reflexivity].
Qed.

Lemma exs_doc_fits : doc_fits exs_cfg false exs_now exs_m.
Proof. split; vm_compute; discriminate. Qed.

Lemma exs_receiver_ok nowr sct : (match sct with Some t => t | None => nowr end <= 1700003600000000000)%Z ->
  receiver_ok exs_env exs_rcfg nowr sct exs_cfg exs_now exs_m ex_content.
Proof.
  intros H. split; [split; reflexivity|]. split; [intros i; reflexivity|]. split; [vm_compute; reflexivity|].
  split; [vm_compute; discriminate|]. split; [vm_compute; discriminate|]. right.
  replace (expiry_ns exs_cfg exs_now) with 1700003600000000000%Z by (vm_compute; reflexivity). exact H.
Qed.

(* the premises of the two theorems are satisfiable: the session above by the theorems *)
Definition exs_nowr : Z := 1700000002000000000.
Definition exs_sct : option Z := Some 1700000001000000000%Z.
Lemma exs_pf_is : exs_pf = sess_fdt_pkt exs_cfg false exs_now exs_m 1 exs_sct.
Proof. reflexivity. Qed.
Lemma exs_receiver_ok' : receiver_ok exs_env exs_rcfg exs_nowr exs_sct exs_cfg exs_now exs_m ex_content.
Proof. apply exs_receiver_ok. vm_compute. discriminate. Qed.
Lemma le_1_2 : (1 <= 2)%nat. Proof. repeat constructor. Qed.

Example exs_by_theorem closable fti :
  let '(_, r, cx) := recv_run exs_env fdt_oracle exs_rcfg recv0
                       (map (fun p => RvPush p exs_nowr)
                            (sess_fdt_pkt exs_cfg false exs_now exs_m 1 exs_sct
                             :: obj_wire no_rep no_rsrc exs_cfg exs_m 2 closable true ex_content fti)) ctx0 in
  session_meta_delivered exs_cfg false exs_now exs_m ex_content exs_rcfg r cx.
Proof.
  exact (session_clean_channel no_rep no_rsrc exs_cfg false exs_now exs_m ex_content exs_env exs_rcfg
           exs_nowr 1 exs_sct exs_sender_ok exs_doc_fits exs_receiver_ok' 2 closable true fti le_1_2).
Qed.

Example exs_late_by_theorem j closable fti :
  let '(_, r, cx) := recv_run exs_env fdt_oracle exs_rcfg recv0
                       (map (fun p => RvPush p exs_nowr)
                            (skipn j (obj_wire no_rep no_rsrc exs_cfg exs_m 2 false true ex_content true)
                             ++ sess_fdt_pkt exs_cfg false exs_now exs_m 1 exs_sct
                                :: obj_wire no_rep no_rsrc exs_cfg exs_m 2 closable true ex_content fti)) ctx0 in
  session_meta_delivered exs_cfg false exs_now exs_m ex_content exs_rcfg r cx.
Proof.
  exact (session_late_join no_rep no_rsrc exs_cfg false exs_now exs_m ex_content exs_env exs_rcfg
           exs_nowr 1 exs_sct exs_sender_ok exs_doc_fits exs_receiver_ok' 2 true j 2 closable true fti le_1_2 le_1_2).
Qed.

(* D44: the receiver joins at ANY offset j of the LAST transfer (in-band FTI, the close-object flag on its last packet:
   the flag arrives BEFORE the FDT instance and is ignored), then the FDT packet, then a whole further transfer; and the
   whole flagged transfer followed by the FDT packet alone - by computation (real XML bytes) and by the theorem *)
Example exs_late_flag_before_fdt_computed :
  map a_close_obj (exs_wire true) = [false; false; true]
  /\ forallb (fun j => match exs_run (skipn j (map (add_fti ex_oti 5) (exs_wire true)) ++ exs_pf :: exs_wire false) with
                       | (_, [], [7], [], l) => list_eqb (fun a b => match a, b with
                                                                    | EvWrite _ x _, EvWrite _ y _ => eqb_bytes x y
                                                                    | EvBuilder _ _, EvBuilder _ _ | EvOpen _ _, EvOpen _ _
                                                                    | EvComplete _, EvComplete _ => true
                                                                    | _, _ => false end) l exs_log
                       | _ => false end) [0; 1; 2; 3; 4]%nat = true
  /\ exs_run (map (add_fti ex_oti 5) (exs_wire true) ++ [exs_pf]) = ([POk; POk; POk; POk], [], [7], [], exs_log).
Proof. vm_compute. repeat split. Qed.

Example exs_late_flag_before_fdt_by_theorem j closable1 closable fti :
  let '(_, r, cx) := recv_run exs_env fdt_oracle exs_rcfg recv0
                       (map (fun p => RvPush p exs_nowr)
                            (skipn j (obj_wire no_rep no_rsrc exs_cfg exs_m 2 closable1 true ex_content true)
                             ++ sess_fdt_pkt exs_cfg false exs_now exs_m 1 exs_sct
                                :: obj_wire no_rep no_rsrc exs_cfg exs_m 2 closable true ex_content fti)) ctx0 in
  session_meta_delivered exs_cfg false exs_now exs_m ex_content exs_rcfg r cx.
Proof.
  exact (session_late_join_any_flag_before_fdt no_rep no_rsrc exs_cfg false exs_now exs_m ex_content exs_env exs_rcfg
           exs_nowr 1 exs_sct exs_sender_ok exs_doc_fits exs_receiver_ok' 2 closable1 true j 2 closable true fti le_1_2 le_1_2).
Qed.

(* the expiry premise is needed, with the real document too: the receiver's clock (no EXT_TIME) one second past
   Expires = publication second + 3600 s, expiry check on: the instance is never attached, the packets stay
   cached, nothing is delivered; with EXT_TIME before Expires the same packets are delivered *)
Definition exs_run_at (nowr : Z) (evs : list apkt) :=
  let '(xs, r, c) := recv_run exs_env fdt_oracle exs_rcfg recv0 (map (fun p => RvPush p nowr) evs) ctx0 in
  (xs, map fst (rv_objects r), rv_completed r, rv_error r, c_log c).
Example exs_expired_refuted :
  exs_run_at 1700003601000000000%Z (fdt_pkt 1 (nocode_roti exs_session) None exs_doc :: exs_wire true)
  = ([POk; POk; POk; POk], [7], [], [], [])
  /\ exs_run_at 1700003601000000000%Z (exs_pf :: exs_wire true) = ([POk; POk; POk; POk], [], [7], [], exs_log).
Proof. vm_compute. split; reflexivity. Qed.
