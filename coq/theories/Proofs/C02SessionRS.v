(* C02 at the receiver level (Model/Recv.v) for the schemes whose decoder is the oracle e_fec:
   Reed-Solomon GF(2^8) (FEC 5 = FRS28, FEC 129 = FRS28US) and RaptorQ / Raptor (FEC 6 / 1).
   Part G isolates what the receiver-level plumbing of Proofs/C02Session.v needs of the object level as an
   interface (section SessIface: predicates "attached and receiving" SP, "decoding before the FDT" PS, liveness LV,
   genuine packets, coverage, with the step / attach / not-covered lemmas as hypotheses) and proves the two session
   theorems once over it.  Part N instantiates it for No-Code (re-deriving the statements of C02Session.v as a
   sanity check), part R for the oracle schemes on the object invariant of Proofs/C02RS.v. *)
From FluteV Require Import Proofs.D48Step Model.Partition Spec.C07Spec Proofs.PartitionProofs Model.ObjRecv Model.Recv
  Spec.RecvSpec Spec.SessionSpec Proofs.RecvProofs Proofs.SessionProofs Proofs.C02Full Proofs.C09Full
  Proofs.C02Session Proofs.C02RS.
From Coq Require Import Lia.
Open Scope N_scope.

Arguments N.add : simpl never. Arguments N.mul : simpl never. Arguments N.sub : simpl never.
Arguments N.eqb : simpl never. Arguments N.ltb : simpl never. Arguments N.leb : simpl never.
Arguments N.div : simpl never. Arguments N.modulo : simpl never. Arguments N.min : simpl never.

Ltac prj := cbn [r_state r_toi r_oti r_cache r_cache_size r_max r_blocks r_off r_tlen r_cenc r_md5 r_md5chk
                 r_al r_as r_nal r_writer r_bw r_fdt_id r_nb_alloc r_alloc_size r_clen r_nocache] in *.

(* ================= G. the receiver-level plumbing over an object-level interface ================= *)
Section SessIface.
  Variable E : env.
  Variable parse_fdt : list N -> option fdtinst.
  Variable cfg : rconfig.
  Variable content : list N.
  Variable toi : N.
  Variable now : Z.
  Hypothesis Htoi : toi <> 0.
  Notation max := (cf_max_cache cfg).
  Notation w := (toi, 0%nat).
  Variables (id : N) (inst : fdtinst) (f : fdtfile).
  Hypothesis Hfind : find (fun f => ff_toi f =? toi) (fi_files inst) = Some f.

  (* ---- the interface ---- *)
  Variable SP : objrecv -> ctx -> Prop.            (* attached to the FDT entry, writer open, receiving *)
  Variable LV : list (N * N) -> objrecv -> Prop.   (* the symbols seen so far are still accounted for *)
  Variable gen : apkt -> Prop.                     (* genuine packet of the object *)
  Variable pid : apkt -> N * N.
  Variable cov : list (N * N) -> Prop.             (* the symbols suffice to recover every block *)
  Hypothesis I_state : forall o c, SP o c -> r_state o = Receiving.
  Hypothesis I_writer : forall o c, SP o c -> r_writer o = Some (w, WOpened).
  Hypothesis I_nc : forall o c p, SP o c -> r_nocache (fst (or_push E p o c)) = r_nocache o.
  Hypothesis I_step : forall o c seen p, SP o c -> LV seen o -> gen p ->
    (a_close_obj p = true -> cov (pid p :: seen)) ->
    let (o2, c2) := or_push E p o c in
    (SP o2 c2 /\ LV (pid p :: seen) o2) \/ (r_state o2 = Completed /\ ShapeDone content w toi c2).
  Hypothesis I_notcov : forall o c seen, SP o c -> LV seen o -> cov seen -> False.
  Hypothesis I_cov_incl : forall l l', cov l -> incl l l' -> cov l'.
  Hypothesis I_attach : forall fid c, Blank c ->
    exists o0 c0, or_attach E fid (fi_files inst) (fi_oti inst) (or_new toi max) c = (true, o0, c0)
                  /\ SP o0 c0 /\ LV [] o0 /\ r_nocache o0 = ff_nocache f.

  Notation push := (fun p => RvPush p now).
  Notation DoneC := (DoneCore content toi f).
  Notation SessD := (SessDone cfg content toi f).
  Notation closed_of p r :=
    (if a_close_sess p
     then mk_recv (rv_objects r) (rv_completed r) (rv_error r) (rv_fdt_receivers r) (rv_fdt_current r) true
     else r).

  Definition GRecvCore (seen : list (N * N)) (r : recv) (c : ctx) : Prop :=
    exists o, rv_objects r = [(toi, o)] /\ rv_completed r = [] /\ rv_error r = []
              /\ SP o c /\ LV seen o /\ r_nocache o = ff_nocache f.

  Definition gclose (seen : list (N * N)) (pkts : list apkt) : Prop :=
    forall pre p post, pkts = pre ++ p :: post -> a_close_obj p = true -> cov (map pid (pre ++ [p]) ++ seen).

  (* one packet of the object on the attached, receiving object *)
  Lemma g_obj_tail_ok seen p r3 o c3 :
    rv_objects r3 = [(toi, o)] -> rv_completed r3 = [] -> rv_error r3 = [] ->
    SP o c3 -> LV seen o -> r_nocache o = ff_nocache f -> C09Full.Pre o c3 ->
    gen p -> (a_close_obj p = true -> cov (pid p :: seen)) ->
    let (o2, c4) := or_push E p o c3 in
    let (r5, c5) := check_state cfg toi (set_objects r3 (put_obj toi o2 (rv_objects r3))) c4 in
    GRecvCore (pid p :: seen) r5 c5 \/ DoneC r5 c5.
  Proof.
    intros Hobjs Hcomp Herr HS Lv Hnc HP Gp Cl.
    pose proof (I_step o c3 seen p HS Lv Gp Cl) as H.
    pose proof (or_push_ext E p o c3 HP) as X. pose proof (I_nc o c3 p HS) as NC.
    destruct (or_push E p o c3) as [o2 c4]. unfold ExtP in X. cbn [fst snd] in X, NC.
    rewrite Hobjs. unfold put_obj. cbn [existsb fst map]. rewrite N.eqb_refl. cbn [orb].
    unfold check_state, get_obj. cbn [set_objects rv_objects find fst snd]. rewrite N.eqb_refl.
    cbn [snd set_objects rv_objects rv_completed rv_error rv_fdt_receivers rv_fdt_current rv_closed].
    destruct H as [(S1 & L1)|(H1 & H2)].
    - rewrite (I_state _ _ S1). left. exists o2.
      cbn [rv_objects rv_completed rv_error].
      split; [reflexivity|]. split; [exact Hcomp|]. split; [exact Herr|]. split; [exact S1|].
      split; [exact L1|congruence].
    - rewrite H1. cbv iota.
      assert (Hw : exists ws, r_writer o2 = Some (w, ws)).
      { exact (e_stable _ _ _ _ X _ _ (I_writer _ _ HS)). }
      destruct (or_drop_done content toi o2 c4 (e_pre _ _ _ _ X) Hw H2) as [Hd Ha].
      unfold remove_obj, get_obj. cbn [rv_objects find fst snd]. rewrite N.eqb_refl.
      cbn [set_objects rv_objects rv_completed rv_error rv_fdt_receivers rv_fdt_current rv_closed del_obj filter fst snd].
      rewrite N.eqb_refl. cbn [negb]. rewrite Hd, Hcomp, NC, Hnc. right.
      unfold DoneCore. cbn [rv_objects rv_completed rv_error existsb app].
      split; [reflexivity|]. split; [destruct (ff_nocache f); reflexivity|]. split; [exact Herr|].
      split; [exact H2|exact Ha].
  Qed.

  Lemma g_recv_core_closed seen r c b :
    GRecvCore seen r c ->
    GRecvCore seen (mk_recv (rv_objects r) (rv_completed r) (rv_error r) (rv_fdt_receivers r) (rv_fdt_current r) b) c.
  Proof. intros (o & H). exists o. exact H. Qed.

  Lemma g_push_obj_recv seen r c p :
    GRecvCore seen r c -> RI r c -> a_toi p = toi -> gen p -> (a_close_obj p = true -> cov (pid p :: seen)) ->
    let '(x, r', c') := push_obj E cfg p now r c in (GRecvCore (pid p :: seen) r' c' \/ DoneC r' c') /\ RI r' c'.
  Proof.
    intros (o & Hobjs & Hcomp & Herr & HS & Lv & Hnc) R Ht Gp Cl.
    pose proof (push_obj_inv E cfg p now r c R) as R'.
    assert (HP : C09Full.Pre o c) by (eapply RInv_pre; [exact R|rewrite Hobjs; left; reflexivity]).
    pose proof (g_obj_tail_ok seen p r o c Hobjs Hcomp Herr HS Lv Hnc HP Gp Cl) as T.
    assert (Eq : push_obj E cfg p now r c =
                 (let (o2, c4) := or_push E p o c in
                  let (r5, c5) := check_state cfg toi (set_objects r (put_obj toi o2 (rv_objects r))) c4 in
                  (POk, r5, c5))).
    { unfold push_obj. cbv zeta. rewrite Ht, Hcomp. cbn [existsb]. cbv iota beta. rewrite Herr. cbn [existsb]. cbv iota beta.
      unfold get_obj. rewrite Hobjs. cbn [find fst]. rewrite N.eqb_refl. cbn [snd]. rewrite <- Hobjs. reflexivity. }
    rewrite Eq in *. clear Eq.
    destruct (or_push E p o c) as [o2 c4].
    destruct (check_state cfg toi (set_objects r (put_obj toi o2 (rv_objects r))) c4) as [r5 c5].
    split; [exact T|exact R'].
  Qed.

  (* the first packet of the object when a complete, unexpired instance listing it is current *)
  Lemma g_push_obj_first F2 rest r c p :
    rv_objects r = [] -> rv_completed r = [] -> rv_error r = [] -> rv_fdt_current r = F2 :: rest ->
    fr_update_expired F2 now = F2 -> fr_state F2 = FComplete -> fr_inst F2 = Some inst ->
    Blank c -> RI r c -> a_toi p = toi -> gen p -> (a_close_obj p = true -> cov [pid p]) ->
    let '(x, r', c') := push_obj E cfg p now r c in (GRecvCore [pid p] r' c' \/ DoneC r' c') /\ RI r' c'.
  Proof.
    intros Hobjs Hcomp Herr Hcur Hup Hst Hin Bl R Ht Gp Cl.
    pose proof (push_obj_inv E cfg p now r c R) as R'.
    destruct (I_attach (fr_id F2) c Bl) as (o0 & c0 & Hat & S0 & L0 & Hnc).
    assert (P0 : C09Full.Pre (or_new toi max) c).
    { split; [left; exact I|]. split; [exact I|]. destruct R as (_ & _ & Fr & _). exact Fr. }
    pose proof (or_attach_ext E (fr_id F2) (fi_files inst) (fi_oti inst) _ c P0) as X. rewrite Hat in X.
    unfold ExtA in X. cbn [fst snd] in X.
    set (r3 := mk_recv (rv_objects r ++ [(toi, o0)]) (rv_completed r) (rv_error r) (rv_fdt_receivers r) (F2 :: rest) (rv_closed r)).
    assert (T : let (o2, c4) := or_push E p o0 c0 in
                let (r5, c5) := check_state cfg toi (set_objects r3 (put_obj toi o2 (rv_objects r3))) c4 in
                GRecvCore (pid p :: []) r5 c5 \/ DoneC r5 c5).
    { apply g_obj_tail_ok; try assumption.
      - unfold r3. cbn [rv_objects]. rewrite Hobjs. reflexivity.
      - exact (e_pre _ _ _ _ X). }
    assert (Eq : push_obj E cfg p now r c =
                 (let (o2, c4) := or_push E p o0 c0 in
                  let (r5, c5) := check_state cfg toi (set_objects r3 (put_obj toi o2 (rv_objects r3))) c4 in
                  (POk, r5, c5))).
    { unfold push_obj. cbv zeta. rewrite Ht, Hcomp. cbn [existsb]. cbv iota beta. rewrite Herr. cbn [existsb]. cbv iota beta.
      unfold get_obj. rewrite Hobjs. cbn [find]. rewrite Hcur. cbn [create_attach]. rewrite Hup, Hst, Hin, Hat.
      cbv iota beta. unfold r3. rewrite Hobjs, Herr. reflexivity. }
    rewrite Eq in *. clear Eq.
    destruct (or_push E p o0 c0) as [o2 c4].
    destruct (check_state cfg toi (set_objects r3 (put_obj toi o2 (rv_objects r3))) c4) as [r5 c5].
    split; [exact T|exact R'].
  Qed.

  Lemma gclose_tail seen p pkts : gclose seen (p :: pkts) -> gclose (pid p :: seen) pkts.
  Proof.
    intros Cl pre q post Eq Hq. specialize (Cl (p :: pre) q post). rewrite Eq in Cl.
    specialize (Cl eq_refl Hq). apply (I_cov_incl _ _ Cl). intros x Hx. cbn [app map] in Hx.
    destruct Hx as [Hx|Hx]; [apply in_or_app; right; left; exact Hx|].
    apply in_app_or in Hx. apply in_or_app. destruct Hx as [Hx|Hx]; [left; exact Hx|right; right; exact Hx].
  Qed.

  Lemma g_run_recv pkts : forall r c seen, GRecvCore seen r c -> RI r c ->
    Forall gen pkts -> Forall (fun p => a_toi p = toi) pkts ->
    gclose seen pkts -> cov (List.rev (map pid pkts) ++ seen) ->
    let '(_, r', c') := recv_run E parse_fdt cfg r (map push pkts) c in SessD r' c'.
  Proof.
    induction pkts as [|p pkts IH]; intros r c seen HR R G T Cl Cv.
    - exfalso. destruct HR as (o & _ & _ & _ & HS & Lv & _). cbn [map List.rev app] in Cv.
      exact (I_notcov o c seen HS Lv Cv).
    - pose proof (Forall_inv G) as Gp; pose proof (Forall_inv_tail G) as Gr; pose proof (Forall_inv T) as Tp; pose proof (Forall_inv_tail T) as Tr. cbn beta in Tp. cbn [map recv_run].
      rewrite (step_is_push_obj E parse_fdt cfg toi now Htoi r c p Tp).
      assert (HR0 : GRecvCore seen (closed_of p r) c) by (destruct (a_close_sess p); [apply g_recv_core_closed|]; exact HR).
      assert (R0 : RI (closed_of p r) c) by (destruct (a_close_sess p); exact R).
      assert (Clp : a_close_obj p = true -> cov (pid p :: seen)).
      { intros Hcl. exact (Cl [] p pkts eq_refl Hcl). }
      pose proof (g_push_obj_recv seen _ c p HR0 R0 Tp Gp Clp) as H.
      destruct (push_obj E cfg p now (closed_of p r) c) as [[x r1] c1]. destruct H as [[H|H] R1].
      + assert (Cv1 : cov (List.rev (map pid pkts) ++ pid p :: seen)).
        { cbn [map List.rev] in Cv. rewrite <- app_assoc in Cv. exact Cv. }
        specialize (IH r1 c1 (pid p :: seen) H R1 Gr Tr (gclose_tail seen p pkts Cl) Cv1).
        destruct (recv_run E parse_fdt cfg r1 (map push pkts) c1) as [[xs r2] c2]. exact IH.
      + pose proof (run_done E parse_fdt cfg content toi now Htoi f pkts r1 c1 (done_core_sess cfg _ _ _ _ _ H R1) Tr) as D.
        destruct (recv_run E parse_fdt cfg r1 (map push pkts) c1) as [[xs r2] c2]. exact D.
  Qed.

  Lemma g_cov_rev l : cov l -> cov (List.rev l ++ []).
  Proof. intros C. apply (I_cov_incl _ _ C). intros x Hx. rewrite app_nil_r. apply -> in_rev. exact Hx. Qed.

  (* the object's packets after a complete, unexpired instance listing it has become current *)
  Lemma g_run_after_fdt F2 rest pkts r c :
    rv_objects r = [] -> rv_completed r = [] -> rv_error r = [] -> rv_fdt_current r = F2 :: rest ->
    fr_update_expired F2 now = F2 -> fr_state F2 = FComplete -> fr_inst F2 = Some inst ->
    Blank c -> RI r c ->
    Forall gen pkts -> Forall (fun p => a_toi p = toi) pkts ->
    gclose [] pkts -> cov (map pid pkts) ->
    let '(_, r', c') := recv_run E parse_fdt cfg r (map push pkts) c in SessD r' c'.
  Proof.
    intros Hobjs Hcomp Herr Hcur Hup Hst Hin Bl R G T Cl Cv.
    destruct pkts as [|p pkts].
    { exfalso. destruct (I_attach 0 c Bl) as (o0 & c0 & _ & S0 & L0 & _). exact (I_notcov o0 c0 [] S0 L0 Cv). }
    pose proof (Forall_inv G) as Gp; pose proof (Forall_inv_tail G) as Gr; pose proof (Forall_inv T) as Tp; pose proof (Forall_inv_tail T) as Tr. cbn beta in Tp. cbn [map recv_run].
    rewrite (step_is_push_obj E parse_fdt cfg toi now Htoi r c p Tp).
    assert (R0 : RI (closed_of p r) c) by (destruct (a_close_sess p); exact R).
    assert (Clp : a_close_obj p = true -> cov [pid p]).
    { intros Hcl. pose proof (Cl [] p pkts eq_refl Hcl) as K. cbn [app map] in K. exact K. }
    assert (H : let '(x, r', c') := push_obj E cfg p now (closed_of p r) c in
                (GRecvCore [pid p] r' c' \/ DoneC r' c') /\ RI r' c').
    { apply (g_push_obj_first F2 rest); try assumption; destruct (a_close_sess p); assumption. }
    destruct (push_obj E cfg p now (closed_of p r) c) as [[x r1] c1]. destruct H as [[H|H] R1].
    + apply g_cov_rev in Cv. cbn [map List.rev] in Cv. rewrite <- !app_assoc in Cv.
      pose proof (g_run_recv pkts r1 c1 [pid p] H R1 Gr Tr (gclose_tail [] p pkts Cl) Cv) as D.
      destruct (recv_run E parse_fdt cfg r1 (map push pkts) c1) as [[xs r2] c2]. exact D.
    + pose proof (run_done E parse_fdt cfg content toi now Htoi f pkts r1 c1 (done_core_sess cfg _ _ _ _ _ H R1) Tr) as D.
      destruct (recv_run E parse_fdt cfg r1 (map push pkts) c1) as [[xs r2] c2]. exact D.
  Qed.

  (* ---------- S1: the FDT packet first ---------- *)
  Variables (pf : apkt) (foti : roti) (d : list N).
  Hypothesis Hpf : fdt_pkt_ok pf id foti d.
  Hypothesis Hparse : parse_fdt d = Some inst.
  Hypothesis Hlive : fdt_live cfg inst pf now.

  Theorem g_fdt_first_delivers pkts :
    Forall gen pkts -> Forall (fun p => a_toi p = toi) pkts ->
    gclose [] pkts -> cov (map pid pkts) ->
    let '(_, r, c) := recv_run E parse_fdt cfg recv0 (map push (pf :: pkts)) ctx0 in SessD r c.
  Proof.
    intros G T Cl Cv. cbn [map recv_run]. cbn [recv_step].
    pose proof Hpf as (Hz & _). rewrite Hz. rewrite N.eqb_refl.
    set (r0 := closed_of pf recv0).
    destruct (push_fdt_first E parse_fdt cfg pf id foti d inst now Hpf Hparse Hlive r0 ctx0) as (c0 & Hc0 & Eq).
    { unfold r0. destruct (a_close_sess pf); reflexivity. }
    { unfold r0. destruct (a_close_sess pf); reflexivity. }
    rewrite Eq. clear Eq.
    assert (Ho : rv_objects r0 = []) by (unfold r0; destruct (a_close_sess pf); reflexivity).
    assert (Hcm : rv_completed r0 = []) by (unfold r0; destruct (a_close_sess pf); reflexivity).
    assert (Her : rv_error r0 = []) by (unfold r0; destruct (a_close_sess pf); reflexivity).
    cbv zeta. cbn [rv_objects]. rewrite Ho. cbn [map attach_all check_all].
    cbn [rv_objects rv_completed rv_error rv_fdt_receivers rv_fdt_current rv_closed firstn].
    assert (Bl : Blank c0) by (apply (blank_or ctx0); [split; reflexivity|exact Hc0]).
    assert (Hcomp0 : match fi_files inst with
                     | [] => rv_completed r0
                     | _ :: _ => filter (fun t => existsb (fun f0 => ff_toi f0 =? t) (fi_files inst)) (rv_completed r0)
                     end = []).
    { rewrite Hcm. destruct (fi_files inst); reflexivity. }
    rewrite Hcomp0, Her.
    match goal with |- context [recv_run E parse_fdt cfg ?rr _ c0] => set (r1 := rr) end.
    assert (R1 : RI r1 c0).
    { unfold RI, r1. cbn [rv_objects]. destruct Hc0 as [->| ->]; [exact RInv0|].
      eapply RInv_ceq; [| |exact RInv0]; reflexivity. }
    pose proof (g_run_after_fdt (fdt_done cfg id d inst pf now) [] pkts r1 c0 eq_refl eq_refl eq_refl eq_refl
                  (live_update _ _ _ _ _ _ Hlive) eq_refl eq_refl Bl R1 G T Cl Cv) as D.
    destruct (recv_run E parse_fdt cfg r1 (map push pkts) c0) as [[xs r2] c2]. exact D.
  Qed.

  (* ---------- S2: packets of the object (in-band FTI) before the FDT instance ---------- *)
  Variable PS : objrecv -> Prop.                   (* decoding without FDT entry and without writer *)
  Variable pktpre : apkt -> Prop.                  (* a packet that may arrive before the FDT instance *)
  Hypothesis J_state : forall o, PS o -> r_state o = Receiving.
  Hypothesis J_toi : forall p, pktpre p -> a_toi p = toi.
  Hypothesis J_first : forall c p, pktpre p ->
    exists o1, or_push E p (or_new toi max) c = (o1, c) /\ PS o1 /\ LV [pid p] o1.
  Hypothesis J_push : forall o c seen p, PS o -> LV seen o -> pktpre p ->
    exists o1, or_push E p o c = (o1, c) /\ PS o1 /\ LV (pid p :: seen) o1.
  Hypothesis J_attach : forall fid o c seen, PS o -> LV seen o -> Blank c ->
    exists o' c', or_attach E fid (fi_files inst) (fi_oti inst) o c = (true, o', c')
      /\ r_nocache o' = ff_nocache f
      /\ ((SP o' c' /\ LV seen o') \/ (r_state o' = Completed /\ ShapeDone content w toi c')).

  Definition GPreCore (seen : list (N * N)) (r : recv) : Prop :=
    exists o, rv_objects r = [(toi, o)] /\ rv_completed r = [] /\ rv_error r = []
              /\ rv_fdt_current r = [] /\ rv_fdt_receivers r = [] /\ PS o /\ LV seen o.

  Lemma g_pre_core_closed seen r b :
    GPreCore seen r ->
    GPreCore seen (mk_recv (rv_objects r) (rv_completed r) (rv_error r) (rv_fdt_receivers r) (rv_fdt_current r) b).
  Proof. intros (o & H). exists o. exact H. Qed.

  Lemma g_push_obj_pre seen r c p : GPreCore seen r -> pktpre p ->
    exists r', push_obj E cfg p now r c = (POk, r', c) /\ GPreCore (pid p :: seen) r'.
  Proof.
    intros (o & Hobjs & Hcomp & Herr & Hcur & Hrcv & PS0 & Lv) Pp. pose proof (J_toi p Pp) as Ht.
    destruct (J_push o c seen p PS0 Lv Pp) as (o1 & Eq & P1 & L1).
    unfold push_obj. cbv zeta. rewrite Ht, Hcomp. cbn [existsb]. cbv iota beta. rewrite Herr. cbn [existsb]. cbv iota beta.
    unfold get_obj. rewrite Hobjs. cbn [find fst]. rewrite N.eqb_refl. cbn [snd]. rewrite Eq. rewrite Hobjs.
    unfold put_obj. cbn [existsb fst map]. rewrite N.eqb_refl. cbn [orb].
    unfold check_state, get_obj. cbn [set_objects rv_objects find fst]. rewrite N.eqb_refl. cbn [snd].
    rewrite (J_state _ P1). eexists. split; [reflexivity|]. exists o1.
    cbn [rv_objects rv_completed rv_error rv_fdt_current rv_fdt_receivers].
    split; [reflexivity|]. split; [exact Hcomp|]. split; [exact Herr|]. split; [exact Hcur|]. split; [exact Hrcv|].
    split; [exact P1|exact L1].
  Qed.

  Lemma g_push_obj_pre_first r c p :
    rv_objects r = [] -> rv_completed r = [] -> rv_error r = [] -> rv_fdt_current r = [] -> rv_fdt_receivers r = [] ->
    pktpre p -> exists r', push_obj E cfg p now r c = (POk, r', c) /\ GPreCore [pid p] r'.
  Proof.
    intros Hobjs Hcomp Herr Hcur Hrcv Pp. pose proof (J_toi p Pp) as Ht.
    destruct (J_first c p Pp) as (o1 & Eq & P1 & L1).
    unfold push_obj. cbv zeta. rewrite Ht, Hcomp. cbn [existsb]. cbv iota beta. rewrite Herr. cbn [existsb]. cbv iota beta.
    unfold get_obj. rewrite Hobjs. cbn [find]. rewrite Hcur. cbn [create_attach]. rewrite Eq.
    cbn [rv_objects app]. unfold put_obj. cbn [existsb fst map]. rewrite N.eqb_refl. cbn [orb].
    unfold check_state, get_obj. cbn [set_objects rv_objects find fst]. rewrite N.eqb_refl. cbn [snd].
    rewrite (J_state _ P1). eexists. split; [reflexivity|]. exists o1.
    cbn [rv_objects rv_completed rv_error rv_fdt_current rv_fdt_receivers].
    split; [reflexivity|]. split; [exact Hcomp|]. split; [exact Herr|]. split; [reflexivity|]. split; [exact Hrcv|].
    split; [exact P1|exact L1].
  Qed.

  Lemma g_run_pre pkts : forall r c seen, GPreCore seen r -> Forall pktpre pkts ->
    exists xs r', recv_run E parse_fdt cfg r (map push pkts) c = (xs, r', c)
                  /\ GPreCore (List.rev (map pid pkts) ++ seen) r'.
  Proof.
    induction pkts as [|p pkts IH]; intros r c seen HP F0.
    - exists [], r. split; [reflexivity|exact HP].
    - pose proof (Forall_inv F0) as Fp. pose proof (Forall_inv_tail F0) as Fr. cbn [map recv_run].
      rewrite (step_is_push_obj E parse_fdt cfg toi now Htoi r c p (J_toi p Fp)).
      assert (HP0 : GPreCore seen (closed_of p r)) by (destruct (a_close_sess p); [apply g_pre_core_closed|]; exact HP).
      destruct (g_push_obj_pre seen _ c p HP0 Fp) as (r1 & Eq & HP1). rewrite Eq.
      destruct (IH r1 c (pid p :: seen) HP1 Fr) as (xs & r2 & Eq2 & HP2). rewrite Eq2.
      exists (POk :: xs), r2. split; [reflexivity|]. cbn [map List.rev]. rewrite <- app_assoc. exact HP2.
  Qed.

  (* the FDT instance arrives while the object is decoding without it *)
  Lemma g_push_fdt_pre seen r c : GPreCore seen r -> Blank c -> RI r c ->
    let '(x, r', c') := push_fdt_obj E parse_fdt cfg pf now r c in
    (GRecvCore seen r' c' \/ DoneC r' c') /\ RI r' c'.
  Proof.
    intros (o & Hobjs & Hcomp & Herr & Hcur & Hrcv & PS0 & Lv) Bl R.
    pose proof (push_fdt_obj_inv E parse_fdt cfg pf now r c R) as R'.
    destruct (push_fdt_first E parse_fdt cfg pf id foti d inst now Hpf Hparse Hlive r c Hcur Hrcv) as (c0 & Hc0 & Eq).
    assert (Bl0 : Blank c0) by (apply (blank_or c); assumption).
    assert (R0 : RI r c0).
    { destruct Hc0 as [->| ->]; [exact R|]. eapply RInv_ceq; [| |exact R]; reflexivity. }
    destruct (J_attach id o c0 seen PS0 Lv Bl0) as (o' & c' & Hat & Hnc & Hcase).
    assert (HP' : C09Full.Pre o' c').
    { assert (HP : C09Full.Pre o c0) by (eapply RInv_pre; [exact R0|rewrite Hobjs; left; reflexivity]).
      pose proof (or_attach_ext E id (fi_files inst) (fi_oti inst) o c0 HP) as X. rewrite Hat in X. exact (e_pre _ _ _ _ X). }
    assert (Hex : existsb (fun x => ff_toi x =? toi) (fi_files inst) = true) by (apply (find_existsb toi _ f); exact Hfind).
    set (F2 := fdt_done cfg id d inst pf now) in *.
    set (r2 := mk_recv [(toi, o')] (rv_completed r) (rv_error r) [] [F2] (rv_closed r)).
    assert (Eq2 : push_fdt_obj E parse_fdt cfg pf now r c =
                  (let (r3, c3) := check_state cfg toi r2 c' in
                   let comp := match fi_files inst with
                               | [] => rv_completed r3
                               | _ => filter (fun t => existsb (fun f => ff_toi f =? t) (fi_files inst)) (rv_completed r3)
                               end in
                   (POk, mk_recv (rv_objects r3) comp (rv_error r3) (rv_fdt_receivers r3) (firstn 10 (rv_fdt_current r3)) (rv_closed r3), c3))).
    { rewrite Eq. cbv zeta. cbn [rv_objects]. rewrite Hobjs. cbn [map fst attach_all].
      unfold get_obj. cbn [rv_objects find fst]. rewrite N.eqb_refl. cbn [snd]. rewrite Hat.
      cbn [attach_all app check_all]. unfold put_obj. cbn [set_objects rv_objects rv_completed rv_error rv_fdt_receivers rv_fdt_current rv_closed existsb fst map].
      rewrite N.eqb_refl. cbn [orb].
      unfold set_objects. cbn [rv_objects rv_completed rv_error rv_fdt_receivers rv_fdt_current rv_closed]. fold r2.
      destruct (check_state cfg toi r2 c') as [r3 c3]. reflexivity. }
    rewrite Eq2 in *. clear Eq2 Eq.
    destruct Hcase as [[S' Lv']|[H1 H2]].
    - assert (Ecs : check_state cfg toi r2 c' = (r2, c')).
      { unfold check_state, get_obj. cbn [r2 rv_objects find fst]. rewrite N.eqb_refl. cbn [snd].
        rewrite (I_state _ _ S'). reflexivity. }
      rewrite Ecs in *. cbv zeta in *.
      cbn [r2 rv_objects rv_completed rv_error rv_fdt_receivers rv_fdt_current rv_closed firstn] in *.
      split; [|exact R']. left. exists o'. cbn [rv_objects rv_completed rv_error].
      split; [reflexivity|]. split; [rewrite Hcomp; destruct (fi_files inst); reflexivity|]. split; [exact Herr|].
      split; [exact S'|]. split; [exact Lv'|exact Hnc].
    - destruct (check_state_done cfg content toi r2 c' o' eq_refl Hcomp H1 HP' H2) as [Eqc Ha]. rewrite Eqc in *. cbv zeta in *.
      cbn [r2 rv_objects rv_completed rv_error rv_fdt_receivers rv_fdt_current rv_closed firstn] in *.
      split; [|exact R']. right. unfold DoneCore. cbn [rv_objects rv_completed rv_error].
      split; [reflexivity|]. split; [|split; [exact Herr|split; [exact H2|exact Ha]]].
      rewrite Hnc. destruct (fi_files inst) as [|f0 fl] eqn:Ef; [discriminate Hfind|].
      destruct (ff_nocache f); [reflexivity|]. cbn [filter]. rewrite Hex. reflexivity.
  Qed.

  (* S2: packets with in-band FTI, then the FDT instance, then more packets *)
  Theorem g_fdt_late_delivers pkts1 pkts2 :
    Forall pktpre pkts1 -> Forall gen pkts2 -> Forall (fun p => a_toi p = toi) pkts2 ->
    (forall pre p post, pkts2 = pre ++ p :: post -> a_close_obj p = true -> cov (map pid (pkts1 ++ pre ++ [p]))) ->
    cov (map pid (pkts1 ++ pkts2)) ->
    let '(_, r, c) := recv_run E parse_fdt cfg recv0 (map push (pkts1 ++ pf :: pkts2)) ctx0 in SessD r c.
  Proof.
    intros F1 G2 T2 Cl Cv.
    destruct pkts1 as [|p1 pkts1].
    { cbn [app] in *. apply g_fdt_first_delivers; try assumption.
      intros pre p post Eq Hp. rewrite app_nil_r. exact (Cl pre p post Eq Hp). }
    set (P1 := p1 :: pkts1) in *.
    assert (Hrun1 : exists xs r2, recv_run E parse_fdt cfg recv0 (map push P1) ctx0 = (xs, r2, ctx0)
                                  /\ GPreCore (List.rev (map pid P1)) r2).
    { unfold P1. pose proof (Forall_inv F1) as Fp. pose proof (Forall_inv_tail F1) as Fr. cbn [map recv_run].
      rewrite (step_is_push_obj E parse_fdt cfg toi now Htoi recv0 ctx0 p1 (J_toi p1 Fp)).
      destruct (g_push_obj_pre_first (closed_of p1 recv0) ctx0 p1) as (r1 & Eq & HP1); try (destruct (a_close_sess p1); reflexivity); [exact Fp|].
      rewrite Eq. destruct (g_run_pre pkts1 r1 ctx0 [pid p1] HP1 Fr) as (xs & r2 & Eq2 & HP2). rewrite Eq2.
      exists (POk :: xs), r2. split; [reflexivity|]. cbn [map List.rev]. exact HP2. }
    destruct Hrun1 as (xs & r2 & Eq1 & HP2).
    pose proof (recv_run_inv E parse_fdt cfg (map push P1) recv0 ctx0 RInv0) as R2. rewrite Eq1 in R2.
    unfold RIr in R2. cbn [fst snd] in R2.
    rewrite map_app, recv_run_app, Eq1. cbn [map recv_run]. cbn [recv_step].
    pose proof Hpf as (Hz & _). rewrite Hz, N.eqb_refl.
    assert (HP0 : GPreCore (List.rev (map pid P1)) (closed_of pf r2)) by (destruct (a_close_sess pf); [apply g_pre_core_closed|]; exact HP2).
    assert (R0 : RI (closed_of pf r2) ctx0) by (destruct (a_close_sess pf); exact R2).
    pose proof (g_push_fdt_pre _ _ ctx0 HP0 (conj eq_refl eq_refl) R0) as H.
    destruct (push_fdt_obj E parse_fdt cfg pf now (closed_of pf r2) ctx0) as [[x r3] c3]. destruct H as [H R3].
    assert (D : let '(_, r', c') := recv_run E parse_fdt cfg r3 (map push pkts2) c3 in SessD r' c').
    { destruct H as [H|H].
      - apply (g_run_recv pkts2 r3 c3 (List.rev (map pid P1)) H R3 G2 T2).
        + intros pre p post Eq Hp. apply (I_cov_incl _ _ (Cl pre p post Eq Hp)).
          intros y Hy. rewrite map_app in Hy. apply in_app_or in Hy. apply in_or_app.
          destruct Hy as [Hy|Hy]; [right; apply -> in_rev; exact Hy|left; exact Hy].
        + apply (I_cov_incl _ _ Cv).
          intros y Hy. rewrite map_app in Hy. apply in_app_or in Hy. apply in_or_app.
          destruct Hy as [Hy|Hy]; [right|left]; apply -> in_rev; exact Hy.
      - exact (run_done E parse_fdt cfg content toi now Htoi f pkts2 r3 c3 (done_core_sess cfg _ _ _ _ _ H R3) T2). }
    destruct (recv_run E parse_fdt cfg r3 (map push pkts2) c3) as [[ys r4] c4]. exact D.
  Qed.
End SessIface.

(* ================= N. the interface instantiated for No-Code (sanity check) ================= *)
Section NoCodeInst.
  Variable E : env.
  Variable parse_fdt : list N -> option fdtinst.
  Variable cfg : rconfig.
  Variable oti : roti.
  Variable content : list N.
  Variable toi : N.
  Variable md5 : option (list N).
  Variables al as_ nal n : N.
  Variable now : Z.
  Hypothesis Hfec : ro_fec oti = FNoCode.
  Hypothesis He : 0 < ro_e oti.
  Hypothesis Hb : 0 < ro_b oti.
  Hypothesis HL : 0 < lenN_ content.
  Hypothesis Hu64 : lenN_ content + ro_e oti < U64.
  Hypothesis Hpart : block_partitioning (ro_b oti) (lenN_ content) (ro_e oti) = (al, as_, nal, n).
  Hypothesis Htoi : toi <> 0.
  Notation max := (cf_max_cache cfg).
  Notation w := (toi, 0%nat).
  Hypothesis Hnice : C02Full.Nice2 E content w md5 max n.
  Hypothesis Hacc : writer_accepts E toi.
  Variables (id : N) (inst : fdtinst) (f : fdtfile).
  Hypothesis Hfind : find (fun f => ff_toi f =? toi) (fi_files inst) = Some f.
  Hypothesis Hce : ff_cenc f = CNull.
  Hypothesis Hfo : match ff_oti f with Some x => Some x | None => fi_oti inst end = Some oti.
  Hypothesis Htl : ff_tlen f = lenN_ content.
  Hypothesis Hmd5 : ff_md5 f = md5.

  Notation SPn := (C02Full.Struct oti content w toi md5 max al as_ nal n).
  Notation genn := (C02Full.genuine oti content al as_ nal n).
  Notation covn := (C02Full.covered al as_ nal n).

  Lemma nci_state o c : SPn o c -> r_state o = Receiving.
  Proof. intros (St & _). exact (C02Full.st_state _ _ _ _ _ _ _ _ _ St). Qed.
  Lemma nci_writer o c : SPn o c -> r_writer o = Some (w, WOpened).
  Proof. intros (St & _). exact (C02Full.st_writer _ _ _ _ _ _ _ _ _ St). Qed.
  Lemma nci_nc o c p : SPn o c -> r_nocache (fst (or_push E p o c)) = r_nocache o.
  Proof. apply (nc_or_push_static E cfg oti content toi md5 al as_ nal n He Hb HL Hu64). Qed.

  Lemma nci_step o c seen p : SPn o c -> C02Full.LiveAll seen o -> genn p ->
    (a_close_obj p = true -> covn (pid_of p :: seen)) ->
    let (o2, c2) := or_push E p o c in
    (SPn o2 c2 /\ C02Full.LiveAll (pid_of p :: seen) o2) \/ (r_state o2 = Completed /\ ShapeDone content w toi c2).
  Proof.
    intros HS Lv Gp Cl.
    pose proof (C02Full.step E oti content w toi md5 max al as_ nal n Hfec He Hb HL Hu64 Hpart o c p _ _ HS Gp) as H.
    destruct (or_push E p o c) as [o2 c2]. cbn [C02Full.StepOut] in H.
    assert (LvP : forall o', C02Full.Mono o o' -> C02Full.LiveOne (fst (pid_of p)) (snd (pid_of p)) o' ->
                             C02Full.LiveAll (pid_of p :: seen) o').
    { intros o' M2 L2 s i [Eq|Hin]; [rewrite Eq in L2; exact L2|apply M2, Lv, Hin]. }
    destruct H as [(S1 & M1 & L1)|[(H1 & H2)|(_ & _ & H3)]].
    - left. split; [exact S1|apply LvP; assumption].
    - right. split; assumption.
    - exfalso. apply H3. split; [exact Hnice|]. intros Hcl o' c' S2 M2 L2.
      apply (C02Full.struct_not_covered oti content w toi md5 max al as_ nal n He Hb HL Hu64 Hpart o' c' (pid_of p :: seen) S2 (LvP o' M2 L2)).
      exact (Cl Hcl).
  Qed.

  Lemma nci_notcov o c seen : SPn o c -> C02Full.LiveAll seen o -> covn seen -> False.
  Proof. apply (C02Full.struct_not_covered oti content w toi md5 max al as_ nal n He Hb HL Hu64 Hpart). Qed.

  Lemma nci_attach fid c : Blank c ->
    exists o0 c0, or_attach E fid (fi_files inst) (fi_oti inst) (or_new toi max) c = (true, o0, c0)
                  /\ SPn o0 c0 /\ C02Full.LiveAll [] o0 /\ r_nocache o0 = ff_nocache f.
  Proof.
    intros Bl. destruct Hacc as [A1 A2].
    destruct (attach_struct_blank E oti content toi md5 max al as_ nal n He Hb HL Hu64 Hpart fid (fi_files inst) (fi_oti inst) f c
                Bl Hfind Hce Hfo Htl Hmd5 A1 A2) as (o0 & c0 & Hat & S0 & Hnc).
    exists o0, c0. split; [exact Hat|]. split; [exact S0|]. split; [intros s i []|exact Hnc].
  Qed.

  Notation PSn := (C02Session.PreS cfg oti content toi al as_ nal n).
  Notation pktpren := (C02Session.PktPre oti content toi al as_ nal n).

  Lemma ncj_first c p : pktpren p ->
    exists o1, or_push E p (or_new toi max) c = (o1, c) /\ PSn o1 /\ C02Full.LiveAll [pid_of p] o1.
  Proof.
    intros (Ht & Ho & Hcp & Gp).
    destruct (pre_first E cfg oti content toi md5 al as_ nal n Hfec He Hb HL Hu64 Hpart Htoi Hnice f Htl c p _ _ Ht Ho Hcp Gp)
      as (o1 & Eq & P1 & L1).
    exists o1. split; [exact Eq|]. split; [exact P1|]. intros s i [H|[]]. rewrite H in L1. exact L1.
  Qed.

  Lemma ncj_push o c seen p : PSn o -> C02Full.LiveAll seen o -> pktpren p ->
    exists o1, or_push E p o c = (o1, c) /\ PSn o1 /\ C02Full.LiveAll (pid_of p :: seen) o1.
  Proof.
    intros PS0 Lv (Ht & _ & Hcp & Gp).
    destruct (pre_or_push E cfg oti content toi md5 al as_ nal n Hfec He Hb HL Hu64 Hpart Htoi Hnice f Htl o c p _ _ PS0 Ht Hcp Gp)
      as (o1 & Eq & P1 & M1 & L1).
    exists o1. split; [exact Eq|]. split; [exact P1|]. intros s i [H|H]; [rewrite H in L1; exact L1|apply M1, Lv, H].
  Qed.

  Variables (pf : apkt) (foti : roti) (d : list N).
  Hypothesis Hpf : fdt_pkt_ok pf id foti d.
  Hypothesis Hparse : parse_fdt d = Some inst.
  Hypothesis Hlive : fdt_live cfg inst pf now.

  Lemma nocode_first_via_iface pkts :
    Forall genn pkts -> Forall (fun p => a_toi p = toi) pkts ->
    C02Full.close_ok al as_ nal n [] pkts -> covn (map pid_of pkts) ->
    let '(_, r, c) := recv_run E parse_fdt cfg recv0 (map (fun p => RvPush p now) (pf :: pkts)) ctx0 in
    SessDone cfg content toi f r c.
  Proof.
    intros G T Cl Cv.
    exact (g_fdt_first_delivers E parse_fdt cfg content toi now Htoi id inst f Hfind SPn C02Full.LiveAll genn pid_of covn
             nci_state nci_writer nci_nc nci_step nci_notcov (covered_incl' al as_ nal n) nci_attach
             pf foti d Hpf Hparse Hlive pkts G T Cl Cv).
  Qed.

  Lemma nocode_late_via_iface pkts1 pkts2 :
    Forall pktpren pkts1 -> Forall genn pkts2 -> Forall (fun p => a_toi p = toi) pkts2 ->
    (forall pre p post, pkts2 = pre ++ p :: post -> a_close_obj p = true -> covn (map pid_of (pkts1 ++ pre ++ [p]))) ->
    covn (map pid_of (pkts1 ++ pkts2)) ->
    let '(_, r, c) := recv_run E parse_fdt cfg recv0 (map (fun p => RvPush p now) (pkts1 ++ pf :: pkts2)) ctx0 in
    SessDone cfg content toi f r c.
  Proof.
    intros F1 G2 T2 Cl Cv.
    exact (g_fdt_late_delivers E parse_fdt cfg content toi now Htoi id inst f Hfind SPn C02Full.LiveAll genn pid_of covn
             nci_state nci_writer nci_nc nci_step nci_notcov (covered_incl' al as_ nal n) nci_attach
             pf foti d Hpf Hparse Hlive PSn pktpren
             (fun o P => C02Session.ps_state cfg oti content toi al as_ nal n o P)
             (fun p P => proj1 P) ncj_first ncj_push
             (attach_pre E cfg oti content toi md5 al as_ nal n He Hb HL Hu64 Hpart Htoi Hnice Hacc inst f Hfind Hce Htl Hmd5)
             pkts1 pkts2 F1 G2 T2 Cl Cv).
  Qed.
End NoCodeInst.

(* ================= R. the interface instantiated for the oracle schemes (Proofs/C02RS.v) ================= *)
Lemma nth_upd_eq_l i f l d0 : (i < length l)%nat -> nth i (upd_nthb i f l) d0 = f (nth i l d0).
Proof. revert i. induction l as [|x l IH]; intros [|i] H; cbn [upd_nthb length nth] in *; try lia; auto. apply IH. lia. Qed.
Lemma nth_upd_ne_l i j f l d0 : j <> i -> nth j (upd_nthb i f l) d0 = nth j l d0.
Proof.
  revert i j. induction l as [|x l IH]; intros [|i] [|j] H; cbn [upd_nthb nth]; try reflexivity; try congruence.
  apply IH. congruence.
Qed.

Section RSInst.
  Variable E : env.
  Variable parse_fdt : list N -> option fdtinst.
  Variable cfg : rconfig.
  Variable oti : roti.
  Variable content : list N.
  Variable rep : N -> N -> list N.
  Variable toi : N.
  Variable md5 : option (list N).
  Variables al as_ nal n : N.
  Variable now : Z.
  Hypothesis Hfec : fec_oracle (ro_fec oti) = true.
  Hypothesis He : 0 < ro_e oti.
  Hypothesis Hb : 0 < ro_b oti.
  Hypothesis HL : 0 < lenN_ content.
  Hypothesis Hu64 : lenN_ content + ro_e oti < U64.
  Hypothesis Hpart : block_partitioning (ro_b oti) (lenN_ content) (ro_e oti) = (al, as_, nal, n).
  Hypothesis Htoi : toi <> 0.
  Notation max := (cf_max_cache cfg).
  Notation w := (toi, 0%nat).
  Hypothesis Hsound : forall s sh d, s < n -> Callable oti al as_ nal s sh ->
    NoDup (map fst sh) -> Forall (shard_ok oti content rep al as_ nal s) sh ->
    e_fec E toi (ro_fec oti) s (k_of al as_ nal s) (ro_e oti) (bsz oti content al as_ nal s) sh = Some d ->
    Good oti content al as_ nal n s d.
  Hypothesis HM : Mds E oti content rep toi al as_ nal n.
  Hypothesis Hnice : C02RS.Nice2 E oti content w md5 max al as_ nal n.
  Hypothesis Hacc : writer_accepts E toi.
  Variables (id : N) (inst : fdtinst) (f : fdtfile).
  Hypothesis Hfind : find (fun f => ff_toi f =? toi) (fi_files inst) = Some f.
  Hypothesis Hce : ff_cenc f = CNull.
  Hypothesis Hfo : match ff_oti f with Some x => Some x | None => fi_oti inst end = Some oti.
  Hypothesis Htl : ff_tlen f = lenN_ content.
  Hypothesis Hmd5 : ff_md5 f = md5.

  Notation Lc := (lenN_ content).
  Notation kof := (k_of al as_ nal).
  Notation bszr := (bsz oti content al as_ nal).
  Notation asumr := (asum oti content al as_ nal).
  Notation SPr := (C02RS.Struct E oti content rep w toi md5 max al as_ nal n).
  Notation covr := (C02RS.covered oti al as_ nal n).
  Notation pidr := (rs_pid oti).
  Notation BOk := (C02RS.BlockOk E oti content rep toi al as_ nal n).
  Notation BInit := (C02RS.BlockInit E oti content rep toi al as_ nal n).
  Notation PF lem := (lem (ro_b oti) (ro_e oti) Lc al as_ nal n Hb He HL Hpart) (only parsing).
  (* a packet of the object: genuine for (oti, content, rep), and of a size the block decoder keeps (RaptorQ: E) *)
  Definition genr (p : apkt) : Prop := C02RS.genuine oti content rep al as_ nal n p /\ sized oti (a_payload p).

  Lemma rbi_init s d : BInit s d -> bd_init d = true.
  Proof. intros []. assumption. Qed.

  Lemma rsi_state o c : SPr o c -> r_state o = Receiving.
  Proof. intros ([S1 _ _ _ _ _ _ _ _ _ _ _ _ _] & _). exact S1. Qed.
  Lemma rsi_writer o c : SPr o c -> r_writer o = Some (w, WOpened).
  Proof. intros ([_ _ _ _ _ _ _ _ _ _ _ _ _ S14] & _). exact S14. Qed.
  Lemma rsi_nc o c p : SPr o c -> r_nocache (fst (or_push E p o c)) = r_nocache o.
  Proof.
    intros (St & Dy & _). destruct Dy as [_ _ D3 _ _ _].
    rewrite (C02RS.or_push_static E oti content w toi md5 max al as_ nal He Hb HL Hu64 o c p St D3).
    pose proof (nc_push_to_block E p o c) as K. destruct (push_to_block E p o c) as [[o1|o1] c1]; cbn [fst res_obj] in *; [exact K|].
    rewrite nc_error. exact K.
  Qed.

  Lemma rsi_step o c seen p : SPr o c -> C02RS.LiveAll seen o -> genr p ->
    (a_close_obj p = true -> covr (pidr p :: seen)) ->
    let (o2, c2) := or_push E p o c in
    (SPr o2 c2 /\ C02RS.LiveAll (pidr p :: seen) o2) \/ (r_state o2 = Completed /\ ShapeDone content w toi c2).
  Proof.
    intros HS Lv [Gp Zp] Cl.
    pose proof (C02RS.step E oti content rep w toi md5 max al as_ nal n Hfec He Hb HL Hu64 Hpart Hsound o c p _ _ HS Gp) as H.
    destruct (or_push E p o c) as [o2 c2]. cbn [C02RS.StepOut] in H.
    assert (LvP : forall o', C02RS.Mono o o' -> C02RS.LiveOne (fst (pidr p)) (snd (pidr p)) o' ->
                             C02RS.LiveAll (pidr p :: seen) o').
    { intros o' M2 L2 s i [Eq|Hin]; [rewrite Eq in L2; exact L2|apply M2, Lv, Hin]. }
    destruct H as [(S1 & M1 & L1)|[(H1 & H2)|(_ & _ & H3)]].
    - left. split; [exact S1|apply LvP; [exact M1|exact (L1 Zp)]].
    - right. split; assumption.
    - exfalso. apply H3. split; [exact Hnice|]. intros Hcl o' c' S2 M2 L2.
      apply (C02RS.struct_not_covered E oti content rep w toi md5 max al as_ nal n He Hb HL Hu64 Hpart o' c' (pidr p :: seen) HM S2 (LvP o' M2 (L2 Zp))).
      exact (Cl Hcl).
  Qed.

  Lemma rsi_notcov o c seen : SPr o c -> C02RS.LiveAll seen o -> covr seen -> False.
  Proof. intros S0 Lv Cv. exact (C02RS.struct_not_covered E oti content rep w toi md5 max al as_ nal n He Hb HL Hu64 Hpart o c seen HM S0 Lv Cv). Qed.

  Lemma rsi_cov_incl l l' : covr l -> incl l l' -> covr l'.
  Proof. intros C I0. exact (C02RS.covered_incl oti al as_ nal n l l' I0 C). Qed.

  (* attach_struct of C02RS, from any context with an empty log in which the builder was never called *)
  Lemma rsi_attach fid c : Blank c ->
    exists o0 c0, or_attach E fid (fi_files inst) (fi_oti inst) (or_new toi max) c = (true, o0, c0)
                  /\ SPr o0 c0 /\ C02RS.LiveAll [] o0 /\ r_nocache o0 = ff_nocache f.
  Proof.
    intros [Hnx Hlg]. destruct Hacc as [Hbld Hopen].
    assert (Hnc : ncalls c toi = 0%nat) by (unfold ncalls; rewrite Hnx; reflexivity).
    unfold or_attach, or_new. prj. rewrite Hfind, Hfo, Htl, Hce, Hmd5. cbv iota beta.
    unfold init_partition at 1. unfold nb_block at 1. prj.
    change (0 <? 0 + N.of_nat (length (@nil bdec))) with false. cbv iota beta. rewrite Hpart. cbv iota beta.
    unfold init_writer. prj. rewrite Hnc, Hbld. cbv iota beta zeta.
    rewrite Hopen. cbn [negb]. destruct (N.eqb_spec Lc 0) as [G|HL0]; [lia|]. prj.
    try (d48_skip HL0).
    match goal with |- context [push_from_cache E ?x ?y] => set (o3 := x); set (c3 := y) end.
    pose proof (PF n_pos) as Hn.
    set (m := N.to_nat (N.min n 2048)) in *.
    assert (Hm : (0 < m)%nat) by (unfold m; lia).
    assert (Hlen : length (r_blocks o3) = m) by (unfold o3; prj; apply repeat_length).
    assert (Hnb : 0 < nb_block o3) by (unfold nb_block; rewrite Hlen; unfold o3; prj; lia).
    assert (I3 : push_from_cache E o3 c3 = (o3, c3)).
    { unfold push_from_cache, cache_replay_blocked. change (r_oti o3) with (Some oti). cbv iota beta.
      destruct (N.eqb_spec (nb_block o3) 0) as [G|_]; [lia|]. reflexivity. }
    assert (Hn0 : nth 0 (r_blocks o3) bdec_new = bdec_new) by (unfold o3; prj; apply nth_repeat).
    assert (I4 : write_blocks E (S (length (r_blocks o3))) 0 o3 c3 = (ROk o3, c3)).
    { cbn [write_blocks]. change (r_writer o3) with (Some (w, WOpened)). cbv iota beta.
      change (r_bw o3) with (Some (bw_new Lc (ff_clen f) CNull (match md5 with Some _ => e_md5_enabled E | None => false end))).
      cbv iota beta. change (r_off o3) with 0.
      destruct (N.leb_spec 0 0) as [_|G]; [|lia]. replace (0 - 0) with 0 by lia.
      destruct (N.ltb_spec 0 (N.of_nat (length (r_blocks o3)))) as [_|G]; [|lia]. cbn [andb].
      change (N.to_nat 0) with 0%nat. rewrite Hn0. reflexivity. }
    rewrite I3, I4. cbv iota beta. rewrite I3. exists o3, c3. split; [reflexivity|].
    split; [|split; [intros s i []|reflexivity]].
    split; [|split].
    - constructor; unfold o3; prj; try reflexivity. discriminate.
    - constructor; unfold o3; prj.
      + eexists. split; [reflexivity|]. constructor; cbn [bw_new bw_sbn bw_left bw_cenc bw_acc bw_md5]; try reflexivity.
        * rewrite (PF boff_0). lia.
        * rewrite (PF boff_0). reflexivity.
      + exact Hn.
      + rewrite repeat_length. fold m. lia.
      + intros i. rewrite nth_repeat. apply C02RS.blockok_new.
      + lia.
      + exists []. split; [unfold c3, hdr; cbn [logc inc_calls c_log]; rewrite Hlg; reflexivity|]. split; [reflexivity|].
        rewrite (PF boff_0). reflexivity.
    - unfold C02RS.Flushed. rewrite Hn0. reflexivity.
  Qed.

  Variables (pf : apkt) (foti : roti) (d : list N).
  Hypothesis Hpf : fdt_pkt_ok pf id foti d.
  Hypothesis Hparse : parse_fdt d = Some inst.
  Hypothesis Hlive : fdt_live cfg inst pf now.

  Lemma rs_first_core pkts :
    Forall genr pkts -> Forall (fun p => a_toi p = toi) pkts ->
    gclose pidr covr [] pkts -> covr (map pidr pkts) ->
    let '(_, r, c) := recv_run E parse_fdt cfg recv0 (map (fun p => RvPush p now) (pf :: pkts)) ctx0 in
    SessDone cfg content toi f r c.
  Proof.
    intros G T Cl Cv.
    exact (g_fdt_first_delivers E parse_fdt cfg content toi now Htoi id inst f Hfind SPr C02RS.LiveAll genr pidr covr
             rsi_state rsi_writer rsi_nc rsi_step rsi_notcov rsi_cov_incl rsi_attach
             pf foti d Hpf Hparse Hlive pkts G T Cl Cv).
  Qed.

  (* ---------- S2: decoding before the FDT instance (in-band FTI, no writer) ---------- *)
  (* an object that decodes without FDT and without writer: OTI and length from EXT_FTI, nothing flushed *)
  Record PreR (o : objrecv) : Prop := {
    pr_state : r_state o = Receiving;
    pr_toi : r_toi o = toi;
    pr_oti : r_oti o = Some oti;
    pr_tlen : r_tlen o = Some Lc;
    pr_cenc : r_cenc o = None;
    pr_fdt : r_fdt_id o = None;
    pr_cache : r_cache o = [];
    pr_csz : r_cache_size o = 0;
    pr_al : r_al o = al;
    pr_as : r_as o = as_;
    pr_nal : r_nal o = nal;
    pr_max : r_max o = max;
    pr_writer : r_writer o = None;
    pr_off : r_off o = 0;
    pr_nb : (0 < length (r_blocks o))%nat;
    pr_blocks : forall i, BOk (N.of_nat i) (nth i (r_blocks o) bdec_new);
    pr_alloc : r_alloc_size o <= asumr 0 (r_blocks o)
  }.

  Lemma prer_set_blocks o bl nb sz bw : PreR o -> (0 < length bl)%nat ->
    (forall i, BOk (N.of_nat i) (nth i bl bdec_new)) -> sz <= asumr 0 bl -> PreR (set_blocks o bl 0 nb sz bw).
  Proof. intros [] H1 H2 H3. constructor; unfold set_blocks; prj; first [assumption|reflexivity]. Qed.

  Lemma rpre_tail o c sbn esi payload b1 nb sz :
    PreR o -> sbn < n ->
    let idx := N.to_nat sbn in
    (idx < length (r_blocks o))%nat ->
    let dd := nth idx (r_blocks o) bdec_new in
    bd_completed dd = false -> BInit sbn b1 -> bd_completed b1 = false ->
    (bd_init dd = true -> b1 = dd /\ sz = r_alloc_size o) ->
    (bd_init dd = false -> sz = r_alloc_size o + bszr sbn) ->
    esi_ok oti al as_ nal sbn esi -> payload = esym oti content rep al as_ nal sbn esi -> sized oti payload ->
    exists o1,
      (let (b2, pan) := bd_push E (r_toi o) oti sbn esi payload b1 in
       let c1 := if pan then panicc c else c in
       let o1 := set_blocks o (upd_nthb idx (fun _ => b2) (r_blocks o)) 0 nb sz (r_bw o) in
       if bd_completed b2 then write_blocks E (S (length (r_blocks o1))) sbn o1 c1 else (ROk o1, c1))
      = (ROk o1, c) /\ PreR o1 /\ C02RS.Mono o o1 /\ C02RS.LiveOne sbn esi o1.
  Proof.
    intros PS Hlt idx Hidx dd Hdc BI1 Hc1 Hinit Hnew Hesi Hpay Hz.
    rewrite (pr_toi _ PS).
    destruct (C02RS.bd_push_ok E oti content rep toi al as_ nal n Hfec He Hb HL Hu64 Hpart Hsound sbn esi payload b1 BI1 Hc1 Hesi Hpay)
      as (Q1 & Q2 & Q3 & Q4).
    destruct (bd_push E toi oti sbn esi payload b1) as [b2 pan]. cbn [fst snd] in Q1, Q2, Q3, Q4. subst pan.
    specialize (Q3 Hz). pose proof (rbi_init _ _ Q2) as Hi2.
    cbv zeta.
    set (o1 := set_blocks o (upd_nthb idx (fun _ => b2) (r_blocks o)) 0 nb sz (r_bw o)).
    assert (Hsbn : N.of_nat idx = sbn) by (unfold idx; lia).
    assert (P1 : PreR o1).
    { apply prer_set_blocks; [exact PS|rewrite length_upd; lia| |].
      - intros i. destruct (Nat.eq_dec i idx) as [->|Ne].
        + rewrite nth_upd_eq_l by exact Hidx. rewrite Hsbn.
          split; [rewrite Hi2; discriminate|intros _; exact Q2].
        + rewrite nth_upd_ne_l by exact Ne. apply (pr_blocks _ PS).
      - pose proof (pr_alloc _ PS) as A. destruct (bd_init dd) eqn:Hi.
        + destruct (Hinit eq_refl) as [_ ->]. rewrite C02RS.asum_upd_same; [exact A|]. fold dd. rewrite Hi. exact Hi2.
        + rewrite (Hnew eq_refl).
          rewrite (C02RS.asum_upd_new oti content al as_ nal He Hb HL Hu64); [|exact Hidx|exact Hi|exact Hi2].
          replace (0 + N.of_nat idx) with sbn by lia. lia. }
    assert (M1 : C02RS.Mono o o1).
    { intros s i [H|[H1 H2]]; [left; unfold o1, set_blocks; prj; rewrite (pr_off _ PS) in H; exact H|].
      right. unfold o1, set_blocks; prj. rewrite (pr_off _ PS) in *. split; [exact H1|].
      destruct (Nat.eq_dec (N.to_nat (s - 0)) idx) as [Eq|Ne].
      - rewrite Eq in *. rewrite nth_upd_eq_l by exact Hidx. fold dd in H2. cbv zeta in H2. destruct H2 as [H2 H3].
        split; [exact Hi2|]. right. destruct H3 as [H3|H3]; [congruence|].
        apply Q4. destruct (Hinit H2) as [-> _]. exact H3.
      - rewrite nth_upd_ne_l by exact Ne. exact H2. }
    assert (Lv : C02RS.LiveOne sbn esi o1).
    { right. unfold o1, set_blocks; prj. split; [lia|]. replace (N.to_nat (sbn - 0)) with idx by (unfold idx; lia).
      rewrite nth_upd_eq_l by exact Hidx.
      split; [exact Hi2|right; exact Q3]. }
    exists o1. split; [|split; [exact P1|split; [exact M1|exact Lv]]].
    destruct (bd_completed b2); [|reflexivity].
    cbn [write_blocks]. rewrite (pr_writer _ P1). reflexivity.
  Qed.

  Lemma rpre_p2b o c p sbn esi : PreR o -> genuine_at oti content rep al as_ nal n p sbn esi -> sized oti (a_payload p) ->
    exists o1, push_to_block2 E p o c = (ROk o1, c) /\ PreR o1 /\ C02RS.Mono o o1 /\ C02RS.LiveOne sbn esi o1.
  Proof.
    intros PS (Hpid & Hlt & Hesi & Hpay) Hz. destruct Hnice as (_ & Hmax & Hn97 & Hinit0).
    unfold push_to_block2. rewrite (pr_oti _ PS), (pr_tlen _ PS), Hpid.
    destruct (N.eqb_spec Lc 0) as [G|_]; [lia|]. rewrite (pr_off _ PS).
    destruct (N.ltb_spec sbn 0) as [G|_]; [lia|].
    assert (Hnb : nb_blocks_of oti Lc = n) by (unfold nb_blocks_of; rewrite Hpart; reflexivity).
    assert (Hchk : match sblv oti al as_ nal sbn with None => nb_blocks_of oti Lc <=? sbn | Some _ => false end = false).
    { unfold sblv. destruct (us oti); [reflexivity|]. rewrite Hnb. apply N.leb_gt. exact Hlt. }
    rewrite Hchk.
    replace (sbn - 0) with sbn by lia.
    set (len := N.of_nat (length (r_blocks o))).
    destruct ((len <=? sbn) && (4096 <? sbn)) eqn:X.
    { exfalso. apply andb_true_iff in X. destruct X as [_ X]. apply N.ltb_lt in X. lia. }
    cbv zeta.
    set (bl0 := if len <=? sbn then r_blocks o ++ repeat bdec_new (N.to_nat sbn + 1 - length (r_blocks o)) else r_blocks o).
    assert (F : (forall i, nth i bl0 bdec_new = nth i (r_blocks o) bdec_new)
                /\ (forall s, asumr s bl0 = asumr s (r_blocks o))
                /\ (N.to_nat sbn < length bl0)%nat /\ (length (r_blocks o) <= length bl0)%nat).
    { unfold bl0. destruct (N.leb_spec len sbn) as [G|G]; unfold len in G.
      - split; [intros i; apply nth_app_new|]. split; [intros s; apply (C02RS.asum_app_new oti content al as_ nal He Hb HL Hu64)|].
        rewrite app_length, repeat_length. lia.
      - split; [reflexivity|]. split; [reflexivity|]. lia. }
    destruct F as (F1 & F2 & F3 & F4). clearbody bl0.
    set (o0 := set_blocks o bl0 0 (r_nb_alloc o) (r_alloc_size o) (r_bw o)).
    assert (PS0 : PreR o0).
    { apply prer_set_blocks; [exact PS|pose proof (pr_nb _ PS); lia| |].
      - intros i. rewrite F1. apply (pr_blocks _ PS).
      - rewrite F2. exact (pr_alloc _ PS). }
    assert (M0 : C02RS.Mono o o0).
    { intros s i [H|[H1 H2]]; [left; unfold o0, set_blocks; prj; rewrite (pr_off _ PS) in H; exact H|right].
      unfold o0, set_blocks; prj. rewrite (pr_off _ PS) in *. split; [exact H1|]. rewrite F1. exact H2. }
    set (dd := nth (N.to_nat sbn) bl0 bdec_new).
    assert (Bd : BOk sbn dd).
    { unfold dd. rewrite F1. replace sbn with (N.of_nat (N.to_nat sbn)) at 1 by lia. apply (pr_blocks _ PS). }
    destruct (bd_completed dd) eqn:Hc.
    { exists o0. split; [reflexivity|]. split; [exact PS0|]. split; [exact M0|]. right.
      unfold o0, set_blocks; prj. split; [lia|]. replace (N.to_nat (sbn - 0)) with (N.to_nat sbn) by lia. fold dd.
      split; [|left; exact Hc].
      destruct (bd_init dd) eqn:Hi; [reflexivity|]. destruct Bd as [B0 _]. rewrite B0 in Hc by exact Hi. discriminate. }
    assert (Tl : forall b1 nb sz, BInit sbn b1 -> bd_completed b1 = false ->
      (bd_init dd = true -> b1 = dd /\ sz = r_alloc_size o) -> (bd_init dd = false -> sz = r_alloc_size o + bszr sbn) ->
      exists o1,
        (let (b2, pan) := bd_push E (r_toi o) oti sbn esi (a_payload p) b1 in
         let c1 := if pan then panicc c else c in
         let o1 := set_blocks o0 (upd_nthb (N.to_nat sbn) (fun _ => b2) bl0) 0 nb sz (r_bw o) in
         if bd_completed b2 then write_blocks E (S (length (r_blocks o1))) sbn o1 c1 else (ROk o1, c1))
        = (ROk o1, c) /\ PreR o1 /\ C02RS.Mono o o1 /\ C02RS.LiveOne sbn esi o1).
    { intros b1 nb sz BI1 Hc1 Hi1 Hi2.
      destruct (rpre_tail o0 c sbn esi (a_payload p) b1 nb sz PS0 Hlt F3 Hc BI1 Hc1 Hi1 Hi2 Hesi Hpay Hz) as (o1 & Eq & P1 & M1 & L1).
      exists o1. split; [exact Eq|]. split; [exact P1|]. split; [|exact L1].
      intros s i H. apply M1, M0, H. }
    destruct (bd_init dd) eqn:Hi.
    - cbv iota beta.
      assert (BId : BInit sbn dd) by (destruct Bd as [_ B1]; apply B1; exact Hi).
      apply (Tl dd (r_nb_alloc o) (r_alloc_size o) BId Hc).
      + intros _. split; reflexivity.
      + intros G. congruence.
    - rewrite (pr_al _ PS), (pr_as _ PS), (pr_nal _ PS).
      change (if sbn <? nal then al else as_) with (kof sbn).
      assert (Hk : match sblv oti al as_ nal sbn with Some v => v | None => kof sbn end = kof sbn)
        by (unfold sblv; destruct (us oti); reflexivity).
      rewrite Hk.
      assert (Hbl : match sblv oti al as_ nal sbn with
                    | Some _ => Some (kof sbn * ro_e oti)
                    | None => block_length64 al as_ nal Lc (ro_e oti) sbn
                    end = Some (bszr sbn)).
      { rewrite (bsz_spec oti content al as_ nal n He Hb HL Hu64 Hpart sbn Hlt). unfold sblv. destruct (us oti); [reflexivity|].
        apply (PF bl64 Hu64 sbn Hlt). }
      rewrite Hbl.
      destruct ((2 <=? r_nb_alloc o) && (r_max o <? r_alloc_size o + bszr sbn)) eqn:Y.
      { exfalso. apply andb_true_iff in Y. destruct Y as [_ Y]. apply N.ltb_lt in Y.
        rewrite (pr_max _ PS) in Y. pose proof (pr_alloc _ PS) as A. rewrite <- F2 in A.
        pose proof (C02RS.asum_upd_new oti content al as_ nal He Hb HL Hu64 (N.to_nat sbn) (fun x => mk_bdec false true 0 0 [] None false) bl0 0 F3 Hi eq_refl) as U.
        pose proof (C02RS.asum_le_M oti content al as_ nal He Hb HL Hu64 (upd_nthb (N.to_nat sbn) (fun x => mk_bdec false true 0 0 [] None false) bl0) 0) as B.
        replace (0 + N.of_nat (N.to_nat sbn)) with sbn in U by lia. lia. }
      assert (Hinit : bd_init_block oti (kof sbn) (bszr sbn) dd
                      = if (if cls oti then rs_ok (kof sbn) (ro_parity oti) else fq_dec_ok oti (kof sbn))
                        then Some (mk_bdec (bd_completed dd) true (bszr sbn) (kof sbn) [] None true) else None).
      { unfold bd_init_block. rewrite Hi. unfold cls, fq_dec_ok.
        destruct (ro_fec oti); try discriminate Hfec; try reflexivity.
        - destruct (ro_scheme oti) as [[[z nn] al_]|]; [|reflexivity].
          destruct ((ro_e oti =? 0) || (al_ =? 0) || negb (ro_e oti mod al_ =? 0) || (nn =? 0) || (kof sbn =? 0) || (RAPTORQ_KMAX <? kof sbn));
            reflexivity.
        - destruct (ro_scheme oti) as [x|]; [|reflexivity].
          destruct ((kof sbn =? 0) || (RAPTOR_KMAX <? kof sbn)); reflexivity. }
      rewrite Hinit. rewrite (Hinit0 sbn Hlt). cbv iota beta.
      set (b1 := mk_bdec (bd_completed dd) true (bszr sbn) (kof sbn) [] None true).
      assert (BI1 : BInit sbn b1).
      { constructor; unfold b1; cbn [bd_init bd_k bd_size bd_alloc bd_shards bd_completed bd_data length map]; try reflexivity; try assumption.
        - constructor.
        - constructor.
        - intros _. split; [reflexivity|]. intros _. pose proof (PF k_pos sbn) as Kp. unfold Decodable.
          destruct (cls oti); [cbn [length N.of_nat]; lia|]. intros HD. specialize (HD 0 Kp). discriminate HD.
        - rewrite Hc. discriminate. }
      apply (Tl b1 (r_nb_alloc o + 1) (r_alloc_size o + bszr sbn) BI1 Hc).
      + intros G. congruence.
      + intros _. reflexivity.
  Qed.

  Lemma rpre_or_push_static o c p : PreR o -> a_toi p = toi -> a_cenc p = None ->
    or_push E p o c = match push_to_block E p o c with
                      | (ROk o5, c5) => (o5, c5)
                      | (RErr o5, c5) => error o5 false c5
                      end.
  Proof.
    intros [P1 P2 P3 P4 P5 P6 P7 P8 P9 P10 P11 P12 P13 P14 P15 P16 P17] Ht Hcp.
    destruct o as [st ti ot ca cs mx bl of tl ce m5 mc a1 a2 a3 wr bw fi na az cl nc]. prj.
    subst st ti ot ca cs wr of tl ce fi.
    unfold or_push. prj. rewrite Ht, Hcp. destruct (N.eqb_spec toi 0) as [G|_]; [contradiction|]. cbv iota beta.
    match goal with |- context [init_partition ?x] => set (o0 := x) end.
    assert (Hnb0 : 0 < nb_block o0) by (unfold nb_block, o0; prj; lia).
    assert (I1 : init_partition o0 = o0).
    { unfold init_partition. destruct (N.ltb_spec 0 (nb_block o0)) as [_|G]; [reflexivity|lia]. }
    assert (I2 : init_writer E o0 c = (o0, c)) by reflexivity.
    assert (I3 : push_from_cache E o0 c = (o0, c)).
    { unfold push_from_cache, cache_replay_blocked. change (r_oti o0) with (Some oti). cbv iota beta.
      destruct (N.eqb_spec (nb_block o0) 0) as [G|_]; [lia|]. reflexivity. }
    rewrite I1, I2. cbv iota beta. change (r_state o0) with Receiving. cbv iota beta.
    rewrite I3. cbv iota beta. change (r_state o0) with Receiving. cbv iota beta.
    change (r_oti o0) with (Some oti). cbv iota beta. reflexivity.
  Qed.

  (* one more packet of the object before any FDT instance: decoded, nothing written, the log untouched *)
  (* a close-object flag on such a packet is ignored: the object has no writer yet (D44) *)
  Lemma rpre_or_push o c p sbn esi : PreR o -> a_toi p = toi -> a_cenc p = None ->
    genuine_at oti content rep al as_ nal n p sbn esi -> sized oti (a_payload p) ->
    exists o1, or_push E p o c = (o1, c) /\ PreR o1 /\ C02RS.Mono o o1 /\ C02RS.LiveOne sbn esi o1.
  Proof.
    intros PS Ht Hcp G Hz. rewrite (rpre_or_push_static o c p PS Ht Hcp).
    destruct (rpre_p2b o c p sbn esi PS G Hz) as (o1 & Eq & P1 & M1 & L1).
    unfold push_to_block. rewrite Eq, (pr_state _ P1), (pr_writer _ P1).
    exists o1. split; [destruct (a_close_obj p); reflexivity|]. split; [exact P1|split; assumption].
  Qed.

  Definition rpre_init : objrecv :=
    mk_or Receiving toi (Some oti) [] 0 max (repeat bdec_new (N.to_nat (N.min n 2048))) 0 (Some Lc) None None false
          al as_ nal None None None 0 0 None false.

  Lemma rpre_init_ok : PreR rpre_init.
  Proof.
    pose proof (PF n_pos) as Hn.
    constructor; unfold rpre_init; prj; try reflexivity.
    - rewrite repeat_length. lia.
    - intros i. rewrite nth_repeat. apply C02RS.blockok_new.
    - lia.
  Qed.

  Lemma rpre_first c p sbn esi : a_toi p = toi -> a_oti p = Some (oti, Lc) -> a_cenc p = None ->
    genuine_at oti content rep al as_ nal n p sbn esi -> sized oti (a_payload p) ->
    exists o1, or_push E p (or_new toi max) c = (o1, c) /\ PreR o1 /\ C02RS.LiveOne sbn esi o1.
  Proof.
    intros Ht Ho Hcp G Hz.
    assert (Eq : or_push E p (or_new toi max) c = or_push E p rpre_init c).
    { rewrite (rpre_or_push_static rpre_init c p rpre_init_ok Ht Hcp).
      unfold or_push, or_new. prj. rewrite Ht, Hcp, Ho. destruct (N.eqb_spec toi 0) as [G0|_]; [contradiction|]. cbv iota beta.
      unfold init_partition at 1. unfold nb_block at 1. prj.
      change (0 <? 0 + N.of_nat (length (@nil bdec))) with false. cbv iota beta. rewrite Hpart. cbv iota beta.
      fold rpre_init.
      assert (Hnb0 : 0 < nb_block rpre_init).
      { unfold nb_block, rpre_init; prj. rewrite repeat_length. pose proof (PF n_pos). lia. }
      assert (I2 : init_writer E rpre_init c = (rpre_init, c)) by reflexivity.
      assert (I3 : push_from_cache E rpre_init c = (rpre_init, c)).
      { unfold push_from_cache, cache_replay_blocked. change (r_oti rpre_init) with (Some oti). cbv iota beta.
        destruct (N.eqb_spec (nb_block rpre_init) 0) as [G0|_]; [lia|]. reflexivity. }
      rewrite I2. cbv iota beta. change (r_state rpre_init) with Receiving. cbv iota beta.
      rewrite I3. cbv iota beta. change (r_state rpre_init) with Receiving. cbv iota beta.
      change (r_oti rpre_init) with (Some oti). cbv iota beta. reflexivity. }
    rewrite Eq. destruct (rpre_or_push rpre_init c p sbn esi rpre_init_ok Ht Hcp G Hz) as (o1 & E1 & P1 & _ & L1).
    exists o1. split; [exact E1|split; assumption].
  Qed.

  Lemma rstruct_push_from_cache o c : SPr o c -> push_from_cache E o c = (o, c).
  Proof.
    intros (St & Dy & _). destruct Dy as [_ _ Hnb _ _ _].
    destruct St as [T1 T2 T3 T4 T5 T6 T7 T8 T9 T10 T11 T12 T13 T14].
    unfold push_from_cache, cache_replay_blocked. rewrite T3. fold (nb_block o) in Hnb.
    destruct (N.eqb_spec (nb_block o) 0) as [G|_]; [lia|]. cbv iota beta. cbn [andb].
    rewrite T7. cbn [List.rev drain_cache].
    destruct o as [st ti ot ca cs mx bl of tl ce m5 mc a1 a2 a3 wr bw fi na az cl nc]. prj. subst cs. reflexivity.
  Qed.

  (* the FDT instance reaches an object that has decoded without it: the writer is opened and the completed
     blocks at the front of the window are flushed *)
  Lemma rattach_pre fid o c seen :
    PreR o -> C02RS.LiveAll seen o -> Blank c ->
    exists o' c', or_attach E fid (fi_files inst) (fi_oti inst) o c = (true, o', c')
      /\ r_nocache o' = ff_nocache f
      /\ ((SPr o' c' /\ C02RS.LiveAll seen o') \/ (r_state o' = Completed /\ ShapeDone content w toi c')).
  Proof.
    intros [P1 P2 P3 P4 P5 P6 P7 P8 P9 P10 P11 P12 P13 P14 P15 P16 P17] Lv [Hnx Hlg].
    destruct o as [st ti ot ca cs mx bl of tl ce m5 mc a1 a2 a3 wr bw fi na az cl nc]. prj.
    subst st ti ot ca cs wr of tl ce fi.
    destruct Hacc as [A1 A2]. destruct Hnice as ((Hwr & Hmd) & Hmax & Hn97 & _).
    assert (Hnc : ncalls c toi = 0%nat) by (unfold ncalls; rewrite Hnx; reflexivity).
    pose proof (PF n_pos) as Hn.
    unfold or_attach. prj. rewrite Hfind, Hce, Hmd5. cbv iota beta.
    unfold init_partition at 1. unfold nb_block at 1. prj.
    destruct (N.ltb_spec 0 (0 + N.of_nat (length bl))) as [_|G]; [|lia].
    unfold init_writer. prj. rewrite Hnc, A1. cbv iota beta zeta.
    rewrite A2. cbn [negb]. destruct (N.eqb_spec Lc 0) as [G|HL0]; [lia|]. prj.
    try (d48_skip HL0).
    match goal with |- context [push_from_cache E ?x ?y] => set (o3 := x); set (c3 := y) end.
    assert (Hnb : 0 < nb_block o3) by (unfold nb_block, o3; prj; lia).
    assert (I3 : push_from_cache E o3 c3 = (o3, c3)).
    { unfold push_from_cache, cache_replay_blocked. change (r_oti o3) with (Some oti). cbv iota beta.
      destruct (N.eqb_spec (nb_block o3) 0) as [G|_]; [lia|]. reflexivity. }
    rewrite I3.
    assert (Pre3 : C02RS.Pre E oti content rep w toi md5 max al as_ nal n o3 c3).
    { split.
      - constructor; unfold o3; prj; try reflexivity; try assumption. discriminate.
      - constructor; unfold o3; prj.
        + eexists. split; [reflexivity|]. constructor; cbn [bw_new bw_sbn bw_left bw_cenc bw_acc bw_md5]; try reflexivity.
          * rewrite (PF boff_0). lia.
          * rewrite (PF boff_0). reflexivity.
        + exact Hn.
        + lia.
        + intros i. replace (0 + N.of_nat i) with (N.of_nat i) by lia. apply P16.
        + exact P17.
        + exists []. split; [unfold c3, hdr; cbn [logc inc_calls c_log]; rewrite Hlg; reflexivity|]. split; [reflexivity|].
          rewrite (PF boff_0). reflexivity. }
    pose proof (C02RS.wb_loop E oti content rep w toi md5 max al as_ nal n He Hb HL Hu64 Hpart (S (length (r_blocks o3))) o3 c3 Pre3
                  ltac:(lia)) as W.
    change (r_off o3) with 0 in W.
    pose proof (nc_write_blocks E (S (length (r_blocks o3))) 0 o3 c3) as NC.
    pose proof (ckc_write_blocks E (S (length (r_blocks o3))) 0 o3 c3) as CK.
    destruct (write_blocks E (S (length (r_blocks o3))) 0 o3 c3) as [[o5|o5] c5]; cbn [C02RS.WOut fst res_obj] in *.
    2:{ exfalso. destruct W as [_ W]. apply W. split; assumption. }
    change (r_nocache o3) with (ff_nocache f) in NC.
    destruct W as [[S5 M5]|[[H1 H2]|(_ & _ & H3)]].
    - rewrite (rstruct_push_from_cache o5 c5 S5). exists o5, c5. split; [reflexivity|]. split; [exact NC|]. left.
      split; [exact S5|]. intros s i H. apply M5. exact (Lv s i H).
    - assert (Hca : r_cache o5 = []).
      { destruct CK as [_ [[K1 _]|[K1 _]]]; [rewrite K1; reflexivity|exact K1]. }
      unfold push_from_cache. destruct (cache_replay_blocked o5).
      + exists o5, c5. split; [reflexivity|]. split; [exact NC|]. right. split; assumption.
      + rewrite Hca. cbn [List.rev drain_cache]. eexists _, c5. split; [reflexivity|]. prj. split; [exact NC|].
        right. split; assumption.
    - exfalso. apply H3. split; assumption.
  Qed.

  (* what S2 asks of a packet that arrives before the FDT instance: EXT_FTI with the object's OTI and
     length, no EXT_CENC; it may carry the close-object flag (ignored while there is no writer, D44) *)
  Definition pktprer (p : apkt) : Prop :=
    a_toi p = toi /\ a_oti p = Some (oti, Lc) /\ a_cenc p = None /\ genr p.

  Lemma rsj_first c p : pktprer p ->
    exists o1, or_push E p (or_new toi max) c = (o1, c) /\ PreR o1 /\ C02RS.LiveAll [pidr p] o1.
  Proof.
    intros (Ht & Ho & Hcp & Gp & Zp).
    destruct (rpre_first c p _ _ Ht Ho Hcp Gp Zp) as (o1 & Eq & P1 & L1).
    exists o1. split; [exact Eq|]. split; [exact P1|]. intros s i [H|[]]. rewrite H in L1. exact L1.
  Qed.

  Lemma rsj_push o c seen p : PreR o -> C02RS.LiveAll seen o -> pktprer p ->
    exists o1, or_push E p o c = (o1, c) /\ PreR o1 /\ C02RS.LiveAll (pidr p :: seen) o1.
  Proof.
    intros PS0 Lv (Ht & _ & Hcp & Gp & Zp).
    destruct (rpre_or_push o c p _ _ PS0 Ht Hcp Gp Zp) as (o1 & Eq & P1 & M1 & L1).
    exists o1. split; [exact Eq|]. split; [exact P1|]. intros s i [H|H]; [rewrite H in L1; exact L1|apply M1, Lv, H].
  Qed.

  Lemma rs_late_core pkts1 pkts2 :
    Forall pktprer pkts1 -> Forall genr pkts2 -> Forall (fun p => a_toi p = toi) pkts2 ->
    (forall pre p post, pkts2 = pre ++ p :: post -> a_close_obj p = true -> covr (map pidr (pkts1 ++ pre ++ [p]))) ->
    covr (map pidr (pkts1 ++ pkts2)) ->
    let '(_, r, c) := recv_run E parse_fdt cfg recv0 (map (fun p => RvPush p now) (pkts1 ++ pf :: pkts2)) ctx0 in
    SessDone cfg content toi f r c.
  Proof.
    intros F1 G2 T2 Cl Cv.
    exact (g_fdt_late_delivers E parse_fdt cfg content toi now Htoi id inst f Hfind SPr C02RS.LiveAll genr pidr covr
             rsi_state rsi_writer rsi_nc rsi_step rsi_notcov rsi_cov_incl rsi_attach
             pf foti d Hpf Hparse Hlive PreR pktprer
             (fun o P => pr_state o P) (fun p P => proj1 P) rsj_first rsj_push rattach_pre
             pkts1 pkts2 F1 G2 T2 Cl Cv).
  Qed.
End RSInst.

(* ================= T. the statements ================= *)
(* No-Code again, through the interface: the statements of C02Session.v, word for word *)
Theorem nocode_session_fdt_first_via_iface E parse_fdt cfg oti content toi md5 now pf id foti d inst pkts :
  let L := lenN_ content in
  nocode_ok oti L -> toi <> 0 ->
  fdt_pkt_ok pf id foti d -> parse_fdt d = Some inst -> fdt_live cfg inst pf now ->
  fdt_entry_for (fi_files inst) (fi_oti inst) toi oti L md5 ->
  writer_accepts E toi -> writes_succeed E toi -> md5_good E content md5 ->
  L <= cf_max_cache cfg -> nb_blocks_of oti L <= 4097 ->
  Forall (fun p => a_toi p = toi) pkts ->
  Forall (fun p => genuine_pkt oti content p = true) pkts ->
  close_flag_ok oti L pkts ->
  recoverable oti L pkts = true ->
  let '(_, r, c) := recv_run E parse_fdt cfg recv0 (map (fun p => RvPush p now) (pf :: pkts)) ctx0 in
  session_delivered cfg inst content toi r c.
Proof.
  intros L (Hfec & He & Hb & HL & Hu) Htoi Hpf Hparse Hlive (f & F1 & F2 & F3 & F4 & F5) Hacc Hwr Hmd5 Hmax Hn T G Cl Rec.
  destruct (partition_of oti L) as [[[al as_] nal] n] eqn:Hpart. unfold partition_of in Hpart.
  assert (Hnb : nb_blocks_of oti L = n) by (unfold nb_blocks_of; rewrite Hpart; reflexivity).
  assert (Cov : forall l, recoverable oti L l = true -> C02Full.covered al as_ nal n (map pid_of l)).
  { intros l H. apply recoverable_covered. unfold recoverable, source_ks, partition_of in H. rewrite Hpart in H. exact H. }
  assert (Nc : C02Full.Nice2 E content (toi, 0%nat) md5 (cf_max_cache cfg) n).
  { split; [split; [exact Hwr|exact Hmd5]|]. split; [exact Hmax|]. rewrite <- Hnb. exact Hn. }
  pose proof (nocode_first_via_iface E parse_fdt cfg oti content toi md5 al as_ nal n now Hfec He Hb HL Hu Hpart Htoi Nc Hacc
                id inst f F1 F2 F3 F4 F5 pf foti d Hpf Hparse Hlive pkts
                (genuine_pkt_spec _ _ _ _ _ _ _ Hpart G) T) as D.
  assert (D' : let '(_, r, c) := recv_run E parse_fdt cfg recv0 (map (fun p => RvPush p now) (pf :: pkts)) ctx0 in
               SessDone cfg content toi f r c).
  { apply D.
    - intros pre p post Eq Hp. rewrite app_nil_r. apply Cov. apply (Cl pre p post Eq Hp).
    - apply Cov. exact Rec. }
  destruct (recv_run E parse_fdt cfg recv0 (map (fun p => RvPush p now) (pf :: pkts)) ctx0) as [[xs r] c].
  eapply sess_done_delivered; eassumption.
Qed.

(* D44: the packets of pkts1 may carry the close-object flag; a flag in pkts2 only once pkts1 and the packets up to it are recoverable *)
Theorem nocode_session_fdt_late_via_iface_any_flag_before_fdt E parse_fdt cfg oti content toi md5 now pf id foti d inst pkts1 pkts2 :
  let L := lenN_ content in
  nocode_ok oti L -> toi <> 0 ->
  fdt_pkt_ok pf id foti d -> parse_fdt d = Some inst -> fdt_live cfg inst pf now ->
  fdt_entry_for (fi_files inst) (fi_oti inst) toi oti L md5 ->
  writer_accepts E toi -> writes_succeed E toi -> md5_good E content md5 ->
  L <= cf_max_cache cfg -> nb_blocks_of oti L <= 4097 ->
  Forall (fun p => a_toi p = toi) (pkts1 ++ pkts2) ->
  Forall (fun p => genuine_pkt oti content p = true) (pkts1 ++ pkts2) ->
  Forall (fun p => a_oti p = Some (oti, L) /\ a_cenc p = None) pkts1 ->
  close_flag_ok_after (recoverable oti L) pkts1 pkts2 ->
  recoverable oti L (pkts1 ++ pkts2) = true ->
  let '(_, r, c) := recv_run E parse_fdt cfg recv0 (map (fun p => RvPush p now) (pkts1 ++ pf :: pkts2)) ctx0 in
  session_delivered cfg inst content toi r c.
Proof.
  intros L (Hfec & He & Hb & HL & Hu) Htoi Hpf Hparse Hlive (f & F1 & F2 & F3 & F4 & F5) Hacc Hwr Hmd5 Hmax Hn T G Pre1 Cl Rec.
  destruct (partition_of oti L) as [[[al as_] nal] n] eqn:Hpart. unfold partition_of in Hpart.
  assert (Hnb : nb_blocks_of oti L = n) by (unfold nb_blocks_of; rewrite Hpart; reflexivity).
  assert (Cov : forall l, recoverable oti L l = true -> C02Full.covered al as_ nal n (map pid_of l)).
  { intros l H. apply recoverable_covered. unfold recoverable, source_ks, partition_of in H. rewrite Hpart in H. exact H. }
  assert (Nc : C02Full.Nice2 E content (toi, 0%nat) md5 (cf_max_cache cfg) n).
  { split; [split; [exact Hwr|exact Hmd5]|]. split; [exact Hmax|]. rewrite <- Hnb. exact Hn. }
  apply Forall_app in T. destruct T as [T1 T2]. apply Forall_app in G. destruct G as [G1 G2].
  pose proof (genuine_pkt_spec _ _ _ _ _ _ _ Hpart G1) as G1'. pose proof (genuine_pkt_spec _ _ _ _ _ _ _ Hpart G2) as G2'.
  assert (P1 : Forall (C02Session.PktPre oti content toi al as_ nal n) pkts1).
  { rewrite Forall_forall in *. intros p Hp. destruct (Pre1 p Hp) as (A1 & A2).
    split; [exact (T1 p Hp)|]. split; [exact A1|]. split; [exact A2|exact (G1' p Hp)]. }
  pose proof (nocode_late_via_iface E parse_fdt cfg oti content toi md5 al as_ nal n now Hfec He Hb HL Hu Hpart Htoi Nc Hacc
                id inst f F1 F2 F3 F4 F5 pf foti d Hpf Hparse Hlive pkts1 pkts2 P1 G2' T2) as D.
  assert (D' : let '(_, r, c) := recv_run E parse_fdt cfg recv0 (map (fun p => RvPush p now) (pkts1 ++ pf :: pkts2)) ctx0 in
               SessDone cfg content toi f r c).
  { apply D.
    - intros pre p post Eq Hp. apply Cov. exact (Cl pre p post Eq Hp).
    - apply Cov. exact Rec. }
  destruct (recv_run E parse_fdt cfg recv0 (map (fun p => RvPush p now) (pkts1 ++ pf :: pkts2)) ctx0) as [[xs r] c].
  eapply sess_done_delivered; eassumption.
Qed.

(* the statement as it was before D44 was repaired: a corollary *)
Theorem nocode_session_fdt_late_via_iface E parse_fdt cfg oti content toi md5 now pf id foti d inst pkts1 pkts2 :
  let L := lenN_ content in
  nocode_ok oti L -> toi <> 0 ->
  fdt_pkt_ok pf id foti d -> parse_fdt d = Some inst -> fdt_live cfg inst pf now ->
  fdt_entry_for (fi_files inst) (fi_oti inst) toi oti L md5 ->
  writer_accepts E toi -> writes_succeed E toi -> md5_good E content md5 ->
  L <= cf_max_cache cfg -> nb_blocks_of oti L <= 4097 ->
  Forall (fun p => a_toi p = toi) (pkts1 ++ pkts2) ->
  Forall (fun p => genuine_pkt oti content p = true) (pkts1 ++ pkts2) ->
  Forall (fun p => a_oti p = Some (oti, L) /\ a_cenc p = None /\ a_close_obj p = false) pkts1 ->
  close_flag_ok oti L (pkts1 ++ pkts2) ->
  recoverable oti L (pkts1 ++ pkts2) = true ->
  let '(_, r, c) := recv_run E parse_fdt cfg recv0 (map (fun p => RvPush p now) (pkts1 ++ pf :: pkts2)) ctx0 in
  session_delivered cfg inst content toi r c.
Proof.
  intros L. intros.
  apply (nocode_session_fdt_late_via_iface_any_flag_before_fdt E parse_fdt cfg oti content toi md5 now pf id foti d inst pkts1 pkts2); try assumption.
  - match goal with H : Forall _ pkts1 |- _ => eapply Forall_impl; [|exact H] end. intros p (A1 & A2 & _). split; assumption.
  - apply close_flag_ok_after_of_whole. assumption.
Qed.

(* ---------- Reed-Solomon (FEC 5, FEC 129) ---------- *)
(* D47: the payload of a genuine Reed-Solomon packet is kept by the block decoder when the sender's repair symbols
   have at most E bytes (rs_rep_sized; the source symbols are symbols of the padded object) *)

(* S1rs: the FDT instance (one packet of TOI 0) first, then the packets of the Reed-Solomon object (source and
   repair symbols) in any order with any duplication: premises of rs_recoverable_delivers (max = cf_max_cache cfg)
   + the session premises of session_fdt_first_delivers *)
Theorem rs_session_fdt_first_delivers E parse_fdt cfg oti content rep toi md5 now pf id foti d inst pkts :
  let L := lenN_ content in
  rs_scheme_ok oti L -> rs_blocks_ok oti L -> toi <> 0 ->
  fdt_pkt_ok pf id foti d -> parse_fdt d = Some inst -> fdt_live cfg inst pf now ->
  fdt_entry_for (fi_files inst) (fi_oti inst) toi oti L md5 ->
  writer_accepts E toi -> writes_succeed E toi -> md5_good E content md5 ->
  rs_oracle_mds E oti content rep toi -> rs_rep_sized oti rep ->
  rs_mem_need oti L <= cf_max_cache cfg -> nb_blocks_of oti L <= 4097 ->
  Forall (fun p => a_toi p = toi) pkts ->
  Forall (fun p => rs_genuine_pkt oti content rep p = true) pkts ->
  rs_close_flag_ok oti L pkts ->
  rs_recoverable oti L pkts = true ->
  let '(_, r, c) := recv_run E parse_fdt cfg recv0 (map (fun p => RvPush p now) (pf :: pkts)) ctx0 in
  session_delivered cfg inst content toi r c.
Proof.
  intros L (Hrsf & He & Hb & HL & Hu) Hrs Htoi Hpf Hparse Hlive (f & F1 & F2 & F3 & F4 & F5) Hacc Hwr Hmd5 Hor Hrz Hmax Hn T G Cl Rec.
  destruct (rs_is_cls oti Hrsf) as [Hcls Hfec].
  destruct (partition_of oti L) as [[[al as_] nal] n] eqn:Hpart.
  pose proof (top_sound E oti content rep toi al as_ nal n Hcls He Hb HL Hpart (rs_oracle_mds_sound _ _ _ _ _ Hor)) as Hsound.
  pose proof (top_mds E oti content rep toi al as_ nal n Hcls Hpart Hor) as HM.
  pose proof Hpart as Hpart'. unfold partition_of in Hpart'.
  assert (Hnb : nb_blocks_of oti L = n) by (unfold nb_blocks_of; rewrite Hpart'; reflexivity).
  assert (Cov : forall l, rs_recoverable oti L l = true -> covered oti al as_ nal n (map (rs_pid oti) l)).
  { intros l H. apply (recoverable_covered_rs oti); [exact Hcls|]. unfold rs_recoverable, source_ks in H. rewrite Hpart in H. exact H. }
  assert (Nc : C02RS.Nice2 E oti content (toi, 0%nat) md5 (cf_max_cache cfg) al as_ nal n).
  { split; [split; [exact Hwr|exact Hmd5]|]. split; [rewrite M_mem_need; exact Hmax|]. split; [rewrite <- Hnb; exact Hn|].
    apply (rs_blocks_ok_spec oti L); assumption. }
  assert (G' : Forall (genr oti content rep al as_ nal n) pkts).
  { pose proof (rs_genuine_pkt_spec oti content rep al as_ nal n pkts Hpart G) as G1. eapply Forall_impl; [|exact G1].
    intros p Hp. split; [exact Hp|exact (rs_genuine_sized oti content rep al as_ nal n p Hrsf Hrz Hp)]. }
  pose proof (rs_first_core E parse_fdt cfg oti content rep toi md5 al as_ nal n now Hfec He Hb HL Hu Hpart' Htoi Hsound HM Nc Hacc
                id inst f F1 F2 F3 F4 F5 pf foti d Hpf Hparse Hlive pkts G' T) as D.
  assert (D' : let '(_, r, c) := recv_run E parse_fdt cfg recv0 (map (fun p => RvPush p now) (pf :: pkts)) ctx0 in
               SessDone cfg content toi f r c).
  { apply D.
    - intros pre p post Eq Hp. rewrite app_nil_r. apply Cov. apply (Cl pre p post Eq Hp).
    - apply Cov. exact Rec. }
  destruct (recv_run E parse_fdt cfg recv0 (map (fun p => RvPush p now) (pf :: pkts)) ctx0) as [[xs r] c].
  eapply sess_done_delivered; eassumption.
Qed.

(* S2rs: packets of the object carrying EXT_FTI arrive BEFORE the FDT instance (no EXT_CENC; before D44 was repaired
   also: no close-object flag among them): they are decoded - the decoder oracle is consulted - without writer; the instance opens the writer and
   flushes the completed blocks; the rest of the packets follow *)
(* D44: the packets of pkts1 may carry the close-object flag; a flag in pkts2 only once pkts1 and the packets up to it are recoverable *)
Theorem rs_session_fdt_late_delivers_any_flag_before_fdt E parse_fdt cfg oti content rep toi md5 now pf id foti d inst pkts1 pkts2 :
  let L := lenN_ content in
  rs_scheme_ok oti L -> rs_blocks_ok oti L -> toi <> 0 ->
  fdt_pkt_ok pf id foti d -> parse_fdt d = Some inst -> fdt_live cfg inst pf now ->
  fdt_entry_for (fi_files inst) (fi_oti inst) toi oti L md5 ->
  writer_accepts E toi -> writes_succeed E toi -> md5_good E content md5 ->
  rs_oracle_mds E oti content rep toi -> rs_rep_sized oti rep ->
  rs_mem_need oti L <= cf_max_cache cfg -> nb_blocks_of oti L <= 4097 ->
  Forall (fun p => a_toi p = toi) (pkts1 ++ pkts2) ->
  Forall (fun p => rs_genuine_pkt oti content rep p = true) (pkts1 ++ pkts2) ->
  Forall (fun p => a_oti p = Some (oti, L) /\ a_cenc p = None) pkts1 ->
  close_flag_ok_after (rs_recoverable oti L) pkts1 pkts2 ->
  rs_recoverable oti L (pkts1 ++ pkts2) = true ->
  let '(_, r, c) := recv_run E parse_fdt cfg recv0 (map (fun p => RvPush p now) (pkts1 ++ pf :: pkts2)) ctx0 in
  session_delivered cfg inst content toi r c.
Proof.
  intros L (Hrsf & He & Hb & HL & Hu) Hrs Htoi Hpf Hparse Hlive (f & F1 & F2 & F3 & F4 & F5) Hacc Hwr Hmd5 Hor Hrz Hmax Hn T G Pre1 Cl Rec.
  destruct (rs_is_cls oti Hrsf) as [Hcls Hfec].
  destruct (partition_of oti L) as [[[al as_] nal] n] eqn:Hpart.
  pose proof (top_sound E oti content rep toi al as_ nal n Hcls He Hb HL Hpart (rs_oracle_mds_sound _ _ _ _ _ Hor)) as Hsound.
  pose proof (top_mds E oti content rep toi al as_ nal n Hcls Hpart Hor) as HM.
  pose proof Hpart as Hpart'. unfold partition_of in Hpart'.
  assert (Hnb : nb_blocks_of oti L = n) by (unfold nb_blocks_of; rewrite Hpart'; reflexivity).
  assert (Cov : forall l, rs_recoverable oti L l = true -> covered oti al as_ nal n (map (rs_pid oti) l)).
  { intros l H. apply (recoverable_covered_rs oti); [exact Hcls|]. unfold rs_recoverable, source_ks in H. rewrite Hpart in H. exact H. }
  assert (Nc : C02RS.Nice2 E oti content (toi, 0%nat) md5 (cf_max_cache cfg) al as_ nal n).
  { split; [split; [exact Hwr|exact Hmd5]|]. split; [rewrite M_mem_need; exact Hmax|]. split; [rewrite <- Hnb; exact Hn|].
    apply (rs_blocks_ok_spec oti L); assumption. }
  assert (Gall : forall l, Forall (fun p => rs_genuine_pkt oti content rep p = true) l -> Forall (genr oti content rep al as_ nal n) l).
  { intros l Gl. pose proof (rs_genuine_pkt_spec oti content rep al as_ nal n l Hpart Gl) as G1. eapply Forall_impl; [|exact G1].
    intros p Hp. split; [exact Hp|exact (rs_genuine_sized oti content rep al as_ nal n p Hrsf Hrz Hp)]. }
  apply Forall_app in T. destruct T as [T1 T2]. apply Forall_app in G. destruct G as [G1 G2].
  pose proof (Gall _ G1) as G1'. pose proof (Gall _ G2) as G2'.
  assert (P1 : Forall (pktprer oti content rep toi al as_ nal n) pkts1).
  { rewrite Forall_forall in *. intros p Hp. destruct (Pre1 p Hp) as (A1 & A2).
    split; [exact (T1 p Hp)|]. split; [exact A1|]. split; [exact A2|exact (G1' p Hp)]. }
  pose proof (rs_late_core E parse_fdt cfg oti content rep toi md5 al as_ nal n now Hfec He Hb HL Hu Hpart' Htoi Hsound HM Nc Hacc
                id inst f F1 F2 F3 F4 F5 pf foti d Hpf Hparse Hlive pkts1 pkts2 P1 G2' T2) as D.
  assert (D' : let '(_, r, c) := recv_run E parse_fdt cfg recv0 (map (fun p => RvPush p now) (pkts1 ++ pf :: pkts2)) ctx0 in
               SessDone cfg content toi f r c).
  { apply D.
    - intros pre p post Eq Hp. apply Cov. exact (Cl pre p post Eq Hp).
    - apply Cov. exact Rec. }
  destruct (recv_run E parse_fdt cfg recv0 (map (fun p => RvPush p now) (pkts1 ++ pf :: pkts2)) ctx0) as [[xs r] c].
  eapply sess_done_delivered; eassumption.
Qed.

(* the statement as it was before D44 was repaired: a corollary *)
Theorem rs_session_fdt_late_delivers E parse_fdt cfg oti content rep toi md5 now pf id foti d inst pkts1 pkts2 :
  let L := lenN_ content in
  rs_scheme_ok oti L -> rs_blocks_ok oti L -> toi <> 0 ->
  fdt_pkt_ok pf id foti d -> parse_fdt d = Some inst -> fdt_live cfg inst pf now ->
  fdt_entry_for (fi_files inst) (fi_oti inst) toi oti L md5 ->
  writer_accepts E toi -> writes_succeed E toi -> md5_good E content md5 ->
  rs_oracle_mds E oti content rep toi -> rs_rep_sized oti rep ->
  rs_mem_need oti L <= cf_max_cache cfg -> nb_blocks_of oti L <= 4097 ->
  Forall (fun p => a_toi p = toi) (pkts1 ++ pkts2) ->
  Forall (fun p => rs_genuine_pkt oti content rep p = true) (pkts1 ++ pkts2) ->
  Forall (fun p => a_oti p = Some (oti, L) /\ a_cenc p = None /\ a_close_obj p = false) pkts1 ->
  rs_close_flag_ok oti L (pkts1 ++ pkts2) ->
  rs_recoverable oti L (pkts1 ++ pkts2) = true ->
  let '(_, r, c) := recv_run E parse_fdt cfg recv0 (map (fun p => RvPush p now) (pkts1 ++ pf :: pkts2)) ctx0 in
  session_delivered cfg inst content toi r c.
Proof.
  intros L. intros.
  apply (rs_session_fdt_late_delivers_any_flag_before_fdt E parse_fdt cfg oti content rep toi md5 now pf id foti d inst pkts1 pkts2); try assumption.
  - match goal with H : Forall _ pkts1 |- _ => eapply Forall_impl; [|exact H] end. intros p (A1 & A2 & _). split; assumption.
  - apply close_flag_ok_after_of_whole. assumption.
Qed.

(* ---------- RaptorQ (FEC 6) / Raptor (FEC 1) ---------- *)
Theorem fq_session_fdt_first_delivers E parse_fdt cfg oti content enc toi md5 now pf id foti d inst pkts :
  let L := lenN_ content in
  fq_scheme_ok oti L -> fq_blocks_ok oti L -> toi <> 0 ->
  fdt_pkt_ok pf id foti d -> parse_fdt d = Some inst -> fdt_live cfg inst pf now ->
  fdt_entry_for (fi_files inst) (fi_oti inst) toi oti L md5 ->
  writer_accepts E toi -> writes_succeed E toi -> md5_good E content md5 ->
  fq_oracle_sound E oti content enc toi -> fq_oracle_complete E oti content enc toi ->
  L <= cf_max_cache cfg -> nb_blocks_of oti L <= 4097 ->
  Forall (fun p => a_toi p = toi) pkts ->
  Forall (fun p => fq_genuine_pkt oti content enc p = true) pkts ->
  Forall (fun p => fq_sized_pkt oti p = true) pkts ->
  fq_close_flag_ok oti L pkts ->
  fq_recoverable oti L pkts = true ->
  let '(_, r, c) := recv_run E parse_fdt cfg recv0 (map (fun p => RvPush p now) (pf :: pkts)) ctx0 in
  session_delivered cfg inst content toi r c.
Proof.
  intros L (Hf & He & Hb & HL & Hu) Hsch Htoi Hpf Hparse Hlive (f & F1 & F2 & F3 & F4 & F5) Hacc Hwr Hmd5 Hos Hoc Hmax Hn T G Z Cl Rec.
  destruct (fq_is_fq oti Hf) as (Hcls & Hus & Hfec).
  destruct (partition_of oti L) as [[[al as_] nal] n] eqn:Hpart.
  pose proof Hpart as Hpart'. unfold partition_of in Hpart'.
  pose proof (top_sound_fq E oti content enc toi al as_ nal n Hcls Hus He Hb HL Hu Hpart Hos) as Hsound.
  pose proof (top_complete_fq E oti content enc toi al as_ nal n Hcls Hus He Hb HL Hu Hpart Hoc) as HM.
  assert (Hnb : nb_blocks_of oti L = n) by (unfold nb_blocks_of; rewrite Hpart'; reflexivity).
  assert (Cov : forall l, fq_recoverable oti L l = true -> covered oti al as_ nal n (map (rs_pid oti) l)).
  { intros l H. apply (recoverable_covered_fq oti); [exact Hcls|]. unfold fq_recoverable, source_ks in H. rewrite Hpart in H. exact H. }
  assert (Nc : C02RS.Nice2 E oti content (toi, 0%nat) md5 (cf_max_cache cfg) al as_ nal n).
  { split; [split; [exact Hwr|exact Hmd5]|]. split; [unfold M; rewrite Hus; exact Hmax|]. split; [rewrite <- Hnb; exact Hn|].
    apply (fq_blocks_ok_spec oti L); assumption. }
  assert (G' : Forall (genr oti content enc al as_ nal n) pkts).
  { pose proof (fq_genuine_pkt_spec oti content enc al as_ nal n pkts Hpart G) as G1.
    pose proof (fq_sized_pkt_spec oti pkts Z) as Z1. rewrite Forall_forall in *. intros p Hp. split; [exact (G1 p Hp)|exact (Z1 p Hp)]. }
  pose proof (rs_first_core E parse_fdt cfg oti content enc toi md5 al as_ nal n now Hfec He Hb HL Hu Hpart' Htoi Hsound HM Nc Hacc
                id inst f F1 F2 F3 F4 F5 pf foti d Hpf Hparse Hlive pkts G' T) as D.
  assert (D' : let '(_, r, c) := recv_run E parse_fdt cfg recv0 (map (fun p => RvPush p now) (pf :: pkts)) ctx0 in
               SessDone cfg content toi f r c).
  { apply D.
    - intros pre p post Eq Hp. rewrite app_nil_r. apply Cov. apply (Cl pre p post Eq Hp).
    - apply Cov. exact Rec. }
  destruct (recv_run E parse_fdt cfg recv0 (map (fun p => RvPush p now) (pf :: pkts)) ctx0) as [[xs r] c].
  eapply sess_done_delivered; eassumption.
Qed.

(* D44: the packets of pkts1 may carry the close-object flag; a flag in pkts2 only once pkts1 and the packets up to it are recoverable *)
Theorem fq_session_fdt_late_delivers_any_flag_before_fdt E parse_fdt cfg oti content enc toi md5 now pf id foti d inst pkts1 pkts2 :
  let L := lenN_ content in
  fq_scheme_ok oti L -> fq_blocks_ok oti L -> toi <> 0 ->
  fdt_pkt_ok pf id foti d -> parse_fdt d = Some inst -> fdt_live cfg inst pf now ->
  fdt_entry_for (fi_files inst) (fi_oti inst) toi oti L md5 ->
  writer_accepts E toi -> writes_succeed E toi -> md5_good E content md5 ->
  fq_oracle_sound E oti content enc toi -> fq_oracle_complete E oti content enc toi ->
  L <= cf_max_cache cfg -> nb_blocks_of oti L <= 4097 ->
  Forall (fun p => a_toi p = toi) (pkts1 ++ pkts2) ->
  Forall (fun p => fq_genuine_pkt oti content enc p = true) (pkts1 ++ pkts2) ->
  Forall (fun p => fq_sized_pkt oti p = true) (pkts1 ++ pkts2) ->
  Forall (fun p => a_oti p = Some (oti, L) /\ a_cenc p = None) pkts1 ->
  close_flag_ok_after (fq_recoverable oti L) pkts1 pkts2 ->
  fq_recoverable oti L (pkts1 ++ pkts2) = true ->
  let '(_, r, c) := recv_run E parse_fdt cfg recv0 (map (fun p => RvPush p now) (pkts1 ++ pf :: pkts2)) ctx0 in
  session_delivered cfg inst content toi r c.
Proof.
  intros L (Hf & He & Hb & HL & Hu) Hsch Htoi Hpf Hparse Hlive (f & F1 & F2 & F3 & F4 & F5) Hacc Hwr Hmd5 Hos Hoc Hmax Hn T G Z Pre1 Cl Rec.
  destruct (fq_is_fq oti Hf) as (Hcls & Hus & Hfec).
  destruct (partition_of oti L) as [[[al as_] nal] n] eqn:Hpart.
  pose proof Hpart as Hpart'. unfold partition_of in Hpart'.
  pose proof (top_sound_fq E oti content enc toi al as_ nal n Hcls Hus He Hb HL Hu Hpart Hos) as Hsound.
  pose proof (top_complete_fq E oti content enc toi al as_ nal n Hcls Hus He Hb HL Hu Hpart Hoc) as HM.
  assert (Hnb : nb_blocks_of oti L = n) by (unfold nb_blocks_of; rewrite Hpart'; reflexivity).
  assert (Cov : forall l, fq_recoverable oti L l = true -> covered oti al as_ nal n (map (rs_pid oti) l)).
  { intros l H. apply (recoverable_covered_fq oti); [exact Hcls|]. unfold fq_recoverable, source_ks in H. rewrite Hpart in H. exact H. }
  assert (Nc : C02RS.Nice2 E oti content (toi, 0%nat) md5 (cf_max_cache cfg) al as_ nal n).
  { split; [split; [exact Hwr|exact Hmd5]|]. split; [unfold M; rewrite Hus; exact Hmax|]. split; [rewrite <- Hnb; exact Hn|].
    apply (fq_blocks_ok_spec oti L); assumption. }
  assert (Gall : forall l, Forall (fun p => fq_genuine_pkt oti content enc p = true) l -> Forall (fun p => fq_sized_pkt oti p = true) l ->
                           Forall (genr oti content enc al as_ nal n) l).
  { intros l Gl Zl. pose proof (fq_genuine_pkt_spec oti content enc al as_ nal n l Hpart Gl) as G1.
    pose proof (fq_sized_pkt_spec oti l Zl) as Z1. rewrite Forall_forall in *. intros p Hp. split; [exact (G1 p Hp)|exact (Z1 p Hp)]. }
  apply Forall_app in T. destruct T as [T1 T2]. apply Forall_app in G. destruct G as [G1 G2]. apply Forall_app in Z. destruct Z as [Z1 Z2].
  pose proof (Gall _ G1 Z1) as G1'. pose proof (Gall _ G2 Z2) as G2'.
  assert (P1 : Forall (pktprer oti content enc toi al as_ nal n) pkts1).
  { rewrite Forall_forall in *. intros p Hp. destruct (Pre1 p Hp) as (A1 & A2).
    split; [exact (T1 p Hp)|]. split; [exact A1|]. split; [exact A2|exact (G1' p Hp)]. }
  pose proof (rs_late_core E parse_fdt cfg oti content enc toi md5 al as_ nal n now Hfec He Hb HL Hu Hpart' Htoi Hsound HM Nc Hacc
                id inst f F1 F2 F3 F4 F5 pf foti d Hpf Hparse Hlive pkts1 pkts2 P1 G2' T2) as D.
  assert (D' : let '(_, r, c) := recv_run E parse_fdt cfg recv0 (map (fun p => RvPush p now) (pkts1 ++ pf :: pkts2)) ctx0 in
               SessDone cfg content toi f r c).
  { apply D.
    - intros pre p post Eq Hp. apply Cov. exact (Cl pre p post Eq Hp).
    - apply Cov. exact Rec. }
  destruct (recv_run E parse_fdt cfg recv0 (map (fun p => RvPush p now) (pkts1 ++ pf :: pkts2)) ctx0) as [[xs r] c].
  eapply sess_done_delivered; eassumption.
Qed.

(* the statement as it was before D44 was repaired: a corollary *)
Theorem fq_session_fdt_late_delivers E parse_fdt cfg oti content enc toi md5 now pf id foti d inst pkts1 pkts2 :
  let L := lenN_ content in
  fq_scheme_ok oti L -> fq_blocks_ok oti L -> toi <> 0 ->
  fdt_pkt_ok pf id foti d -> parse_fdt d = Some inst -> fdt_live cfg inst pf now ->
  fdt_entry_for (fi_files inst) (fi_oti inst) toi oti L md5 ->
  writer_accepts E toi -> writes_succeed E toi -> md5_good E content md5 ->
  fq_oracle_sound E oti content enc toi -> fq_oracle_complete E oti content enc toi ->
  L <= cf_max_cache cfg -> nb_blocks_of oti L <= 4097 ->
  Forall (fun p => a_toi p = toi) (pkts1 ++ pkts2) ->
  Forall (fun p => fq_genuine_pkt oti content enc p = true) (pkts1 ++ pkts2) ->
  Forall (fun p => fq_sized_pkt oti p = true) (pkts1 ++ pkts2) ->
  Forall (fun p => a_oti p = Some (oti, L) /\ a_cenc p = None /\ a_close_obj p = false) pkts1 ->
  fq_close_flag_ok oti L (pkts1 ++ pkts2) ->
  fq_recoverable oti L (pkts1 ++ pkts2) = true ->
  let '(_, r, c) := recv_run E parse_fdt cfg recv0 (map (fun p => RvPush p now) (pkts1 ++ pf :: pkts2)) ctx0 in
  session_delivered cfg inst content toi r c.
Proof.
  intros L. intros.
  apply (fq_session_fdt_late_delivers_any_flag_before_fdt E parse_fdt cfg oti content enc toi md5 now pf id foti d inst pkts1 pkts2); try assumption.
  - match goal with H : Forall _ pkts1 |- _ => eapply Forall_impl; [|exact H] end. intros p (A1 & A2 & _). split; assumption.
  - apply close_flag_ok_after_of_whole. assumption.
Qed.

Print Assumptions nocode_session_fdt_first_via_iface.
Print Assumptions nocode_session_fdt_late_via_iface.
Print Assumptions rs_session_fdt_first_delivers.
Print Assumptions rs_session_fdt_late_delivers.
Print Assumptions fq_session_fdt_first_delivers.
Print Assumptions fq_session_fdt_late_delivers.
Print Assumptions nocode_session_fdt_late_via_iface_any_flag_before_fdt.
Print Assumptions rs_session_fdt_late_delivers_any_flag_before_fdt.
Print Assumptions fq_session_fdt_late_delivers_any_flag_before_fdt.

(* ================= X. toy sessions: non-vacuity through recv_run ================= *)
(* the FDT "document" tx_doc of C02Session.v, parsed to an instance listing TOI 7 with the OTI [o] and length L;
   the FDT packet is tx_fdt (No-Code, one symbol); the object packets are those of C02RS.v *)
Definition txr_inst (o : roti) (L : N) : fdtinst := mk_fi [mk_ff 7 CNull (Some o) L None None false] None None.
Definition txr_parse (o : roti) (L : N) (d : list N) : option fdtinst :=
  if eqb_bytes d tx_doc then Some (txr_inst o L) else None.
Definition sess_env (E : env) (parse : list N -> option fdtinst) (cfg : rconfig) (evs : list apkt) :=
  let '(xs, r, c) := recv_run E parse cfg recv0 (map (fun p => RvPush p 100%Z) evs) ctx0 in
  (xs, map fst (rv_objects r), rv_completed r, rv_error r, c_log c).
(* the same packet with EXT_FTI = (o, L) *)
Definition with_fti_of (o : roti) (L : N) (p : apkt) : apkt :=
  mk_apkt (a_toi p) (a_close_obj p) (a_close_sess p) (a_fdt_id p) (Some (o, L)) (a_cenc p) (a_sct p) (a_cp p)
          (a_pidbytes p) (a_payload p) (a_datalen p).
Definition delivered_log129 : list wev :=
  [EvBuilder 7 WStore; EvOpen (7, 0%nat) true; EvWrite (7, 0%nat) [1; 2] true; EvWrite (7, 0%nat) [3; 4] true;
   EvWrite (7, 0%nat) [5] true; EvComplete (7, 0%nat)].

(* Reed-Solomon FEC 5 with the XOR single-parity decoder xor_dec (env_xor): FDT first; block 0 is recovered from its
   parity symbol and one source symbol, block 1 from its parity symbol alone; shuffled, duplicated, receive-once.
   Then three packets with EXT_FTI BEFORE the FDT instance (block 1 is decoded by the oracle before any writer exists);
   then all five before it *)
Example rs_session_computed :
  sess_env env_xor (txr_parse exr_oti 5) (tx_cfg true false) (tx_fdt None :: exr_pkts)
  = ([POk; POk; POk; POk; POk; POk], [], [7], [], delivered_log)
  /\ sess_env env_xor (txr_parse exr_oti 5) (tx_cfg true false)
       (map (with_fti_of exr_oti 5) (firstn 3 exr_pkts) ++ tx_fdt None :: skipn 3 exr_pkts)
     = ([POk; POk; POk; POk; POk; POk], [], [7], [], delivered_log)
  /\ sess_env env_xor (txr_parse exr_oti 5) (tx_cfg true false) (map (with_fti_of exr_oti 5) exr_pkts ++ [tx_fdt None])
     = ([POk; POk; POk; POk; POk; POk], [], [7], [], delivered_log).
Proof. vm_compute. repeat split. Qed.

Example rs_session_by_theorem :
  let '(_, r, c) := recv_run env_xor (txr_parse exr_oti 5) (tx_cfg true false) recv0
                             (map (fun p => RvPush p 100%Z) (tx_fdt None :: exr_pkts)) ctx0 in
  session_delivered (tx_cfg true false) (txr_inst exr_oti 5) exr_content 7 r c.
Proof.
  apply (rs_session_fdt_first_delivers env_xor (txr_parse exr_oti 5) (tx_cfg true false) exr_oti exr_content exr_rep 7 None 100%Z
           (tx_fdt None) 1 tx_foti tx_doc (txr_inst exr_oti 5) exr_pkts).
  - split; [left; reflexivity|]. repeat split; vm_compute; reflexivity.
  - vm_compute. reflexivity.
  - discriminate.
  - apply tx_fdt_ok.
  - reflexivity.
  - left. reflexivity.
  - exists (mk_ff 7 CNull (Some exr_oti) 5 None None false). repeat split.
  - split; reflexivity.
  - intros i. reflexivity.
  - exact I.
  - exact xor_dec_mds.
  - exact exr_rep_sized.
  - vm_compute. discriminate.
  - vm_compute. discriminate.
  - repeat constructor.
  - repeat constructor.
  - apply rs_close_flag_ok_noflag. repeat constructor.
  - vm_compute. reflexivity.
Qed.

Example rs_session_late_by_theorem :
  let '(_, r, c) := recv_run env_xor (txr_parse exr_oti 5) (tx_cfg true false) recv0
                             (map (fun p => RvPush p 100%Z)
                                  (map (with_fti_of exr_oti 5) (firstn 3 exr_pkts) ++ tx_fdt None :: skipn 3 exr_pkts)) ctx0 in
  session_delivered (tx_cfg true false) (txr_inst exr_oti 5) exr_content 7 r c.
Proof.
  apply (rs_session_fdt_late_delivers env_xor (txr_parse exr_oti 5) (tx_cfg true false) exr_oti exr_content exr_rep 7 None 100%Z
           (tx_fdt None) 1 tx_foti tx_doc (txr_inst exr_oti 5) (map (with_fti_of exr_oti 5) (firstn 3 exr_pkts)) (skipn 3 exr_pkts)).
  - split; [left; reflexivity|]. repeat split; vm_compute; reflexivity.
  - vm_compute. reflexivity.
  - discriminate.
  - apply tx_fdt_ok.
  - reflexivity.
  - left. reflexivity.
  - exists (mk_ff 7 CNull (Some exr_oti) 5 None None false). repeat split.
  - split; reflexivity.
  - intros i. reflexivity.
  - exact I.
  - exact xor_dec_mds.
  - exact exr_rep_sized.
  - vm_compute. discriminate.
  - vm_compute. discriminate.
  - repeat constructor.
  - repeat constructor.
  - repeat constructor.
  - apply rs_close_flag_ok_noflag. repeat constructor.
  - vm_compute. reflexivity.
Qed.

(* D44: the vocabulary of the theorems without the flag premise *)
Lemma close_flag_after_of_whole_all oti L pkts1 pkts2 :
  (close_flag_ok oti L (pkts1 ++ pkts2) -> close_flag_ok_after (recoverable oti L) pkts1 pkts2)
  /\ (rs_close_flag_ok oti L (pkts1 ++ pkts2) -> close_flag_ok_after (rs_recoverable oti L) pkts1 pkts2)
  /\ (fq_close_flag_ok oti L (pkts1 ++ pkts2) -> close_flag_ok_after (fq_recoverable oti L) pkts1 pkts2).
Proof. repeat split; apply close_flag_ok_after_of_whole. Qed.

Lemma close_flag_after_basics (rec : list apkt -> bool) pkts1 :
  (forall pkts2, Forall (fun p => a_close_obj p = false) pkts2 -> close_flag_ok_after rec pkts1 pkts2)
  /\ (forall body lst, Forall (fun q => a_close_obj q = false) body -> rec (pkts1 ++ body ++ [lst]) = true ->
                       close_flag_ok_after rec pkts1 (body ++ [lst])).
Proof. split; [apply close_flag_ok_after_noflag|apply close_flag_ok_after_last]. Qed.

Lemma close_flag_after_statement (rec : list apkt -> bool) pkts1 pkts2 :
  close_flag_ok_after rec pkts1 pkts2 <->
  (forall pre p post, pkts2 = pre ++ p :: post -> a_close_obj p = true -> rec (pkts1 ++ pre ++ [p]) = true).
Proof. reflexivity. Qed.

(* D44: a whole in-order LAST transfer of the Reed-Solomon object (source and parity symbols, EXT_FTI on every packet,
   the close-object flag on its last packet) arrives entirely BEFORE the single FDT packet: the flag is ignored (no
   writer yet), the FDT packet opens the writer and the decoded blocks are flushed: delivered - by computation and by
   the theorem without the flag premise.  2nd run: the flag on the very FIRST packet received, before the FDT packet and
   long before the object is recoverable; the rest follows the FDT packet: delivered all the same. *)
Definition exr_last_transfer : list apkt :=
  map (with_fti_of exr_oti 5)
      [rs_pkt 7 0 0 false [1; 2]; rs_pkt 7 0 1 false [3; 4]; rs_pkt 7 0 2 false [2; 6]; rs_pkt 7 1 0 false [5; 0];
       rs_pkt 7 1 1 true [5; 0]].

Example rs_close_flag_before_fdt_now_delivered :
  forallb (rs_genuine_pkt exr_oti exr_content exr_rep) exr_last_transfer = true
  /\ map a_close_obj exr_last_transfer = [false; false; false; false; true]
  /\ sess_env env_xor (txr_parse exr_oti 5) (tx_cfg true false) (exr_last_transfer ++ [tx_fdt None])
     = ([POk; POk; POk; POk; POk; POk], [], [7], [], delivered_log)
  /\ sess_env env_xor (txr_parse exr_oti 5) (tx_cfg true false)
              (with_fti_of exr_oti 5 (rs_pkt 7 1 1 true [5; 0]) :: tx_fdt None :: firstn 4 exr_last_transfer)
     = ([POk; POk; POk; POk; POk; POk], [], [7], [], delivered_log).
Proof. vm_compute. repeat split. Qed.

Example rs_close_flag_before_fdt_by_theorem :
  let '(_, r, c) := recv_run env_xor (txr_parse exr_oti 5) (tx_cfg true false) recv0
                             (map (fun p => RvPush p 100%Z) (exr_last_transfer ++ tx_fdt None :: [])) ctx0 in
  session_delivered (tx_cfg true false) (txr_inst exr_oti 5) exr_content 7 r c.
Proof.
  apply (rs_session_fdt_late_delivers_any_flag_before_fdt env_xor (txr_parse exr_oti 5) (tx_cfg true false) exr_oti exr_content exr_rep 7 None 100%Z
           (tx_fdt None) 1 tx_foti tx_doc (txr_inst exr_oti 5) exr_last_transfer []).
  - split; [left; reflexivity|]. repeat split; vm_compute; reflexivity.
  - vm_compute. reflexivity.
  - discriminate.
  - apply tx_fdt_ok.
  - reflexivity.
  - left. reflexivity.
  - exists (mk_ff 7 CNull (Some exr_oti) 5 None None false). repeat split.
  - split; reflexivity.
  - intros i. reflexivity.
  - exact I.
  - exact xor_dec_mds.
  - exact exr_rep_sized.
  - vm_compute. discriminate.
  - vm_compute. discriminate.
  - repeat constructor.
  - repeat constructor.
  - repeat constructor.
  - apply close_flag_ok_after_noflag. constructor.
  - vm_compute. reflexivity.
Qed.

(* FEC 129 at the session level: cf_max_cache = rs_mem_need = 6 delivers, FDT first or two packets (EXT_FTI) before it;
   with cf_max_cache = 5 = transfer length the object is Errored and error-listed (rs129_memory_limit_refuted, lifted) *)
Example rs129_session_computed :
  sess_env env_xor (txr_parse exu_oti 5) (mk_rcfg 5 6 true false) (tx_fdt None :: exu_pkts)
  = ([POk; POk; POk; POk], [], [7], [], delivered_log129)
  /\ sess_env env_xor (txr_parse exu_oti 5) (mk_rcfg 5 6 true false)
       (map (with_fti_of exu_oti 5) (firstn 2 exu_pkts) ++ tx_fdt None :: skipn 2 exu_pkts)
     = ([POk; POk; POk; POk], [], [7], [], delivered_log129)
  /\ sess_env env_xor (txr_parse exu_oti 5) (mk_rcfg 5 5 true false) (tx_fdt None :: exu_pkts)
     = ([POk; POk; POk; POk], [], [], [7], [EvBuilder 7 WStore; EvOpen (7, 0%nat) true; EvError (7, 0%nat)]).
Proof. vm_compute. repeat split. Qed.

Example rs129_session_by_theorem :
  let '(_, r, c) := recv_run env_xor (txr_parse exu_oti 5) (mk_rcfg 5 6 true false) recv0
                             (map (fun p => RvPush p 100%Z) (tx_fdt None :: exu_pkts)) ctx0 in
  session_delivered (mk_rcfg 5 6 true false) (txr_inst exu_oti 5) exr_content 7 r c.
Proof.
  apply (rs_session_fdt_first_delivers env_xor (txr_parse exu_oti 5) (mk_rcfg 5 6 true false) exu_oti exr_content exu_rep 7 None 100%Z
           (tx_fdt None) 1 tx_foti tx_doc (txr_inst exu_oti 5) exu_pkts).
  - split; [right; reflexivity|]. repeat split; vm_compute; reflexivity.
  - vm_compute. reflexivity.
  - discriminate.
  - apply tx_fdt_ok.
  - reflexivity.
  - left. reflexivity.
  - exists (mk_ff 7 CNull (Some exu_oti) 5 None None false). repeat split.
  - split; reflexivity.
  - intros i. reflexivity.
  - exact I.
  - exact xor_dec_mds_129.
  - exact exu_rep_sized.
  - vm_compute. discriminate.
  - vm_compute. discriminate.
  - repeat constructor.
  - repeat constructor.
  - apply rs_close_flag_ok_noflag. repeat constructor.
  - vm_compute. reflexivity.
Qed.

(* RaptorQ / Raptor with the systematic toy decoder sys_dec (env_sys) *)
Example fq_session_computed :
  sess_env env_sys (txr_parse exq_oti 5) (tx_cfg true false) (tx_fdt None :: exq_pkts)
  = ([POk; POk; POk; POk; POk; POk], [], [7], [], delivered_log)
  /\ sess_env env_sys (txr_parse exq_oti 5) (tx_cfg true false)
       (map (with_fti_of exq_oti 5) (firstn 3 exq_pkts) ++ tx_fdt None :: skipn 3 exq_pkts)
     = ([POk; POk; POk; POk; POk; POk], [], [7], [], delivered_log)
  /\ sess_env env_sys (txr_parse exp_oti 5) (tx_cfg true false) (tx_fdt None :: exp_pkts)
     = ([POk; POk; POk; POk; POk], [], [7], [], delivered_log).
Proof. vm_compute. repeat split. Qed.

Example fq_session_by_theorem :
  let '(_, r, c) := recv_run env_sys (txr_parse exq_oti 5) (tx_cfg true false) recv0
                             (map (fun p => RvPush p 100%Z) (tx_fdt None :: exq_pkts)) ctx0 in
  session_delivered (tx_cfg true false) (txr_inst exq_oti 5) exr_content 7 r c.
Proof.
  destruct (sys_dec_oracle env_sys exq_oti exr_content exq_rep 7 (fun _ _ _ _ _ _ _ => eq_refl)
              ltac:(vm_compute; reflexivity) ltac:(vm_compute; reflexivity) ltac:(vm_compute; reflexivity)) as [Os Oc].
  apply (fq_session_fdt_first_delivers env_sys (txr_parse exq_oti 5) (tx_cfg true false) exq_oti exr_content exq_enc 7 None 100%Z
           (tx_fdt None) 1 tx_foti tx_doc (txr_inst exq_oti 5) exq_pkts).
  - split; [left; reflexivity|]. repeat split; vm_compute; reflexivity.
  - vm_compute. reflexivity.
  - discriminate.
  - apply tx_fdt_ok.
  - reflexivity.
  - left. reflexivity.
  - exists (mk_ff 7 CNull (Some exq_oti) 5 None None false). repeat split.
  - split; reflexivity.
  - intros i. reflexivity.
  - exact I.
  - exact Os.
  - exact Oc.
  - vm_compute. discriminate.
  - vm_compute. discriminate.
  - repeat constructor.
  - repeat constructor.
  - repeat constructor.
  - apply fq_close_flag_ok_noflag. repeat constructor.
  - vm_compute. reflexivity.
Qed.

(* NOT covered by S2 (and a receiver-level loss the object level does not have): packets WITHOUT EXT_FTI that arrive
   before the FDT instance are cached, and the cache is bounded by the same cf_max_cache (max_size_allocated) that bounds
   the decoding buffers, counting every packet (repair symbols and duplicates included).  With cf_max_cache = 5 =
   rs_mem_need the five 2-byte packets overflow the cache (the fourth is refused at 6 >= 5): the object is Errored and
   error-listed BEFORE the FDT instance arrives and nothing is delivered, although the same packets after the FDT
   instance are delivered with the same limit; with a large cache the cached packets are replayed and delivered *)
Example rs_cached_before_fdt_cache_limit :
  rs_mem_need exr_oti 5 = 5
  /\ sess_env env_xor (txr_parse exr_oti 5) (mk_rcfg 5 5 true false) (exr_pkts ++ [tx_fdt None])
     = ([POk; POk; POk; POk; POk; POk], [], [], [7], [])
  /\ sess_env env_xor (txr_parse exr_oti 5) (mk_rcfg 5 5 true false) (tx_fdt None :: exr_pkts)
     = ([POk; POk; POk; POk; POk; POk], [], [7], [], delivered_log)
  /\ sess_env env_xor (txr_parse exr_oti 5) (tx_cfg true false) (exr_pkts ++ [tx_fdt None])
     = ([POk; POk; POk; POk; POk; POk], [], [7], [], delivered_log).
Proof. vm_compute. repeat split. Qed.
