From FluteV Require Import Model.Partition Spec.C07Spec.
From Coq Require Import Lia.
Open Scope N_scope.

Arguments N.add : simpl never. Arguments N.mul : simpl never. Arguments N.sub : simpl never.
Arguments N.div : simpl never. Arguments N.modulo : simpl never. Arguments N.pow : simpl never.

(* ---------- independent characterisation of ceiling and floor ---------- *)
Definition is_ceil (a b q : N) : Prop := a <= q * b /\ forall q', a <= q' * b -> q <= q'.
Definition is_floor (a b q : N) : Prop := q * b <= a /\ forall q', q' * b <= a -> q' <= q.

Lemma div_ceil_qr a b : 0 < b ->
  exists r, a + r = div_ceil a b * b /\ r < b.
Proof.
  intros Hb. unfold div_ceil.
  pose proof (N.div_mod a b ltac:(lia)) as E.
  pose proof (N.mod_lt a b ltac:(lia)) as L.
  set (q := a / b) in *. set (m := a mod b) in *. clearbody q m.
  destruct (N.eqb_spec m 0) as [Z|NZ].
  - exists 0. split; [nia|lia].
  - exists (b - m). split; [|lia].
    replace ((q + 1) * b) with (b * q + b) by ring. lia.
Qed.

Lemma div_ceil_is_ceil a b : 0 < b -> is_ceil a b (div_ceil a b).
Proof.
  intros Hb. destruct (div_ceil_qr a b Hb) as (r & E & L). split; [lia|].
  intros q' H. destruct (N.le_gt_cases (div_ceil a b) q') as [|G]; [assumption|exfalso].
  assert (q' + 1 <= div_ceil a b) by lia. nia.
Qed.

Lemma div_floor_is_floor a b : 0 < b -> is_floor a b (div_floor a b).
Proof.
  intros Hb. unfold div_floor, is_floor.
  pose proof (N.div_mod a b ltac:(lia)) as E.
  pose proof (N.mod_lt a b ltac:(lia)) as L.
  set (q := a / b) in *. set (m := a mod b) in *. clearbody q m.
  split; [nia|]. intros q' H.
  destruct (N.le_gt_cases q' q) as [|G]; [assumption|exfalso].
  assert (q + 1 <= q') by lia. nia.
Qed.

Lemma is_ceil_unique a b q1 q2 : is_ceil a b q1 -> is_ceil a b q2 -> q1 = q2.
Proof. intros [A1 B1] [A2 B2]. specialize (B1 _ A2). specialize (B2 _ A1). lia. Qed.

Lemma div_ceil_0 a b : 0 < b -> (div_ceil a b = 0 <-> a = 0).
Proof.
  intros Hb. destruct (div_ceil_qr a b Hb) as (r & E & L). split; intros H.
  - rewrite H in E. lia.
  - subst a. destruct (N.eq_dec (div_ceil 0 b) 0); [assumption|]. nia.
Qed.

Lemma div_ceil_floor_gap t n : 0 < n ->
  div_floor t n <= div_ceil t n <= div_floor t n + 1.
Proof.
  intros. unfold div_ceil, div_floor. destruct (t mod n =? 0); lia.
Qed.

(* ---------- C07 (1): the partition is the one of RFC 5052 section 9.1 ---------- *)
Definition rfc5052_partition (b l e : N) (res : N * N * N * N) : Prop :=
  exists T N, is_ceil l e T /\ is_ceil T b N /\
    ((N = 0 /\ res = (0, 0, 0, 0)) \/
     (0 < N /\ exists al as_, is_ceil T N al /\ is_floor T N as_ /\
                 res = (al, as_, T - as_ * N, N))).

Lemma partition_matches_rfc5052_proof b l e : 0 < b -> 0 < e ->
  rfc5052_partition b l e (block_partitioning b l e).
Proof.
  intros Hb He. unfold block_partitioning.
  destruct (N.eqb_spec b 0); [lia|]. destruct (N.eqb_spec e 0); [lia|].
  exists (div_ceil l e), (div_ceil (div_ceil l e) b).
  split; [apply div_ceil_is_ceil; assumption|].
  split; [apply div_ceil_is_ceil; assumption|].
  cbv zeta. destruct (N.eqb_spec (div_ceil (div_ceil l e) b) 0) as [Z|NZ].
  - left; split; [assumption|reflexivity].
  - right. split; [lia|].
    eexists; eexists. split; [apply div_ceil_is_ceil; lia|].
    split; [apply div_floor_is_floor; lia|]. reflexivity.
Qed.

Lemma partition_zero_length b e : block_partitioning b 0 e = (0, 0, 0, 0).
Proof.
  unfold block_partitioning. destruct (b =? 0); [reflexivity|].
  destruct (N.eqb_spec e 0); [reflexivity|].
  assert (T0 : div_ceil 0 e = 0) by (apply div_ceil_0; lia). cbv zeta. rewrite T0.
  destruct (N.eqb_spec b 0) as [|Hb]; [subst; reflexivity|].
  assert (N0 : div_ceil 0 b = 0) by (apply div_ceil_0; lia). rewrite N0. reflexivity.
Qed.

(* ---------- C07 (2): covering, bounds ---------- *)
Record partition_ok (b T al as_ nal n : N) : Prop := {
  po_cover : nal * al + (n - nal) * as_ = T;
  po_le_b : al <= b;
  po_small_le : as_ <= al;
  po_large_le : al <= as_ + 1;
  po_nal_lt : nal < n;
  po_n_pos : 0 < n;
  po_small_pos : 0 < as_;
  po_equal_when_even : nal = 0 -> al = as_;
  po_strict_when_odd : 0 < nal -> al = as_ + 1
}.

Lemma partition_covers_proof b l e : 0 < b -> 0 < e -> 0 < l ->
  let '(al, as_, nal, n) := block_partitioning b l e in
  partition_ok b (div_ceil l e) al as_ nal n /\ n = div_ceil (div_ceil l e) b.
Proof.
  intros Hb He Hl. unfold block_partitioning.
  destruct (N.eqb_spec b 0) as [?|_]; [lia|]. destruct (N.eqb_spec e 0) as [?|_]; [lia|]. cbv zeta.
  set (t := div_ceil l e). set (n := div_ceil t b).
  assert (Ht : 0 < t).
  { destruct (N.eq_dec t 0) as [Z|]; [|lia]. apply div_ceil_0 in Z; lia. }
  assert (Hn : 0 < n).
  { destruct (N.eq_dec n 0) as [Z|]; [|lia]. apply div_ceil_0 in Z; lia. }
  destruct (N.eqb_spec n 0) as [?|_]; [lia|].
  split; [|reflexivity].
  destruct (div_ceil_qr t b Hb) as (r & Er & Lr). fold n in Er.
  unfold div_ceil at 1, div_floor.
  pose proof (N.div_mod t n ltac:(lia)) as E.
  pose proof (N.mod_lt t n ltac:(lia)) as L.
  set (q := t / n) in *. set (m := t mod n) in *.
  assert (Hq : 0 < q).
  { destruct (N.eq_dec q 0) as [Z|]; [|lia]. exfalso.
    assert (t < n) by nia.
    (* n = ceil(t/b) <= t since b >= 1 *)
    assert (n <= t). { destruct (div_ceil_is_ceil t b Hb) as [_ Hmin]. fold n in Hmin. apply Hmin. nia. }
    lia. }
  assert (Hqb : q <= b /\ (0 < m -> q + 1 <= b)).
  { (* t + r = n*b, t = n*q + m *)
    split.
    - destruct (N.le_gt_cases q b); [assumption|exfalso]. assert (b + 1 <= q) by lia. nia.
    - intros Hm. destruct (N.le_gt_cases (q + 1) b); [assumption|exfalso].
      assert (b <= q) by lia. nia. }
  replace (t - q * n) with m by nia.
  destruct (N.eqb_spec m 0) as [Z|NZ].
  - constructor; try lia; try nia.
  - constructor; try lia; try nia.
Qed.

(* ---------- C07 (3): block byte lengths ---------- *)
Lemma sym_off_succ al as_ nal s :
  sym_off al as_ nal (s + 1) = sym_off al as_ nal s + nominal_syms al as_ nal s.
Proof.
  unfold sym_off, nominal_syms.
  destruct (N.leb_spec (s + 1) nal), (N.leb_spec s nal), (N.ltb_spec s nal); try lia.
  all: try (assert (s = nal) by lia; subst; replace (nal + 1 - nal) with 1 by lia; lia).
  all: try (replace (s + 1 - nal) with (s - nal + 1) by lia; lia).
Qed.

Lemma sym_off_0 al as_ nal : sym_off al as_ nal 0 = 0.
Proof. unfold sym_off. destruct (N.leb_spec 0 nal); lia. Qed.

Lemma sym_off_total b T al as_ nal n : partition_ok b T al as_ nal n -> sym_off al as_ nal n = T.
Proof.
  intros [C _ _ _ L _ _ _ _]. unfold sym_off. destruct (N.leb_spec n nal); [lia|]. lia.
Qed.

Lemma sym_off_mono al as_ nal s s' : s <= s' -> sym_off al as_ nal s <= sym_off al as_ nal s'.
Proof.
  intros H. replace s' with (s + (s' - s)) by lia. generalize (s' - s) as d. clear.
  intros d. induction d as [|d IH] using N.peano_ind; [rewrite N.add_0_r; lia|].
  replace (s + N.succ d) with (s + d + 1) by lia. rewrite sym_off_succ. lia.
Qed.

Lemma sym_off_lt_total b T al as_ nal n s : partition_ok b T al as_ nal n -> s < n ->
  sym_off al as_ nal s + 1 <= T.
Proof.
  intros P H. pose proof (sym_off_total _ _ _ _ _ _ P) as Tt.
  assert (M : sym_off al as_ nal (s + 1) <= sym_off al as_ nal n) by (apply sym_off_mono; lia).
  rewrite sym_off_succ in M. destruct P. unfold nominal_syms in M.
  destruct (s <? nal); lia.
Qed.

Lemma syms_lt l e T r k : l + r = T * e -> r < e -> k + 1 <= T -> k * e < l.
Proof. intros HT Hr H. assert ((k + 1) * e <= T * e) by (apply N.mul_le_mono_r; assumption). lia. Qed.
Lemma syms_ge l e T r k : l + r = T * e -> T <= k -> l <= k * e.
Proof. intros HT H. assert (T * e <= k * e) by (apply N.mul_le_mono_r; assumption). lia. Qed.

Lemma block_length_closed_form b T al as_ nal n l e r s :
  partition_ok b T al as_ nal n -> 0 < e -> l + r = T * e -> r < e -> s < n ->
  block_length al as_ nal l e s = Some (block_len_closed al as_ nal l e s)
  /\ sym_off al as_ nal s * e < l.
Proof.
  intros P He HT Hr Hs.
  pose proof (sym_off_lt_total _ _ _ _ _ _ s P Hs) as Hlt.
  pose proof (syms_lt l e T r _ HT Hr Hlt) as Hoff.
  split; [|assumption].
  unfold block_length, block_len_closed, csub.
  pose proof (sym_off_succ al as_ nal s) as Hsucc.
  unfold sym_off, nominal_syms in *.
  destruct (N.ltb_spec (s + 1) nal) as [C1|C1].
  - (* strictly inside the large blocks *)
    destruct (N.leb_spec s nal); [|lia]. destruct (N.ltb_spec s nal); [|lia].
    destruct (N.leb_spec (s + 1) nal); [|lia].
    assert (Hn : sym_off al as_ nal (s + 1) + 1 <= T) by (apply (sym_off_lt_total b T al as_ nal n); [assumption|destruct P; lia]).
    unfold sym_off in Hn. destruct (N.leb_spec (s + 1) nal); [|lia].
    pose proof (syms_lt l e T r _ HT Hr Hn).
    f_equal. rewrite N.min_l; [lia|]. nia.
  - destruct (N.eqb_spec (s + 1) nal) as [C2|C2].
    + destruct (N.leb_spec s nal); [|lia]. destruct (N.ltb_spec s nal); [|lia].
      destruct (N.leb_spec (s + 1) nal); [|lia].
      replace (nal - 1) with s by lia.
      destruct (N.leb_spec (nal * (al * e)) l) as [C3|C3].
      * f_equal. rewrite N.min_l; [lia|]. nia.
      * destruct (N.leb_spec (s * (al * e)) l) as [C4|C4]; [|nia].
        f_equal. rewrite N.min_r; [lia|]. nia.
    + assert (C : nal <= s) by lia.
      destruct (N.ltb_spec s nal); [lia|].
      destruct (N.leb_spec (nal * (al * e)) l) as [C3|C3].
      * destruct (N.leb_spec s nal) as [C5|C5].
        -- assert (s = nal) by lia. subst s. replace (nal - nal) with 0 by lia.
           replace ((0 + 1) * (as_ * e)) with (as_ * e) by ring.
           replace (0 * (as_ * e)) with 0 by ring.
           destruct (N.leb_spec (as_ * e) (l - nal * (al * e))).
           ++ f_equal. rewrite N.min_l; [lia|]. nia.
           ++ destruct (N.leb_spec 0 (l - nal * (al * e))); [|lia].
              f_equal. rewrite N.min_r; [|nia]. lia.
        -- destruct (N.leb_spec ((s - nal + 1) * (as_ * e)) (l - nal * (al * e))).
           ++ f_equal. rewrite N.min_l; [lia|]. nia.
           ++ destruct (N.leb_spec ((s - nal) * (as_ * e)) (l - nal * (al * e))) as [C6|C6]; [|nia].
              f_equal. rewrite N.min_r; [|nia].
              replace ((nal * al + (s - nal) * as_) * e) with (nal * (al * e) + (s - nal) * (as_ * e)) by ring.
              lia.
      * exfalso. destruct (N.leb_spec s nal).
        -- assert (s = nal) by lia. subst s. lia.
        -- assert ((nal * al + (s - nal) * as_) * e = nal * (al * e) + (s - nal) * as_ * e) by ring. lia.
Qed.

(* ---------- sums: the block lengths add up to l, only the last one is short ---------- *)
Definition sumN (l : list N) : N := fold_right N.add 0 l.

Lemma closed_step b T al as_ nal n l e r s :
  partition_ok b T al as_ nal n -> 0 < e -> l + r = T * e -> r < e -> s < n ->
  sym_off al as_ nal s * e + block_len_closed al as_ nal l e s
    = N.min l (sym_off al as_ nal (s + 1) * e)
  /\ 0 < block_len_closed al as_ nal l e s.
Proof.
  intros P He HT Hr Hs.
  destruct (block_length_closed_form _ _ _ _ _ _ _ _ _ s P He HT Hr Hs) as [_ Hoff].
  unfold block_len_closed. rewrite sym_off_succ.
  assert (Hpos : 0 < nominal_syms al as_ nal s).
  { unfold nominal_syms. destruct P. destruct (s <? nal); lia. }
  set (o := sym_off al as_ nal s) in *. set (k := nominal_syms al as_ nal s) in *.
  replace ((o + k) * e) with (o * e + k * e) by ring.
  assert (0 < k * e) by nia. lia.
Qed.

Lemma receiver_lengths_spec b T al as_ nal n l e r :
  partition_ok b T al as_ nal n -> 0 < e -> l + r = T * e -> r < e ->
  forall k s, s + N.of_nat k <= n ->
  exists lens,
    receiver_lengths k al as_ nal l e s = map Some lens
    /\ lens = map (fun i => block_len_closed al as_ nal l e (s + N.of_nat i)) (seq 0 k)
    /\ N.min l (sym_off al as_ nal s * e) + sumN lens = N.min l (sym_off al as_ nal (s + N.of_nat k) * e).
Proof.
  intros P He HT Hr k. induction k as [|k IH]; intros s Hs.
  - exists []. cbn [receiver_lengths map seq sumN fold_right N.of_nat]. rewrite !N.add_0_r. repeat split.
  - cbn [receiver_lengths].
    assert (Hs' : s < n) by lia.
    destruct (block_length_closed_form _ _ _ _ _ _ _ _ _ s P He HT Hr Hs') as [Hbl Hoff].
    destruct (closed_step _ _ _ _ _ _ _ _ _ s P He HT Hr Hs') as [Hstep _].
    destruct (IH (s + 1) ltac:(lia)) as (lens & E1 & E2 & E3).
    exists (block_len_closed al as_ nal l e s :: lens). rewrite Hbl, E1. split; [reflexivity|]. split.
    + cbn [seq map]. rewrite N.add_0_r. f_equal. rewrite E2. rewrite <- seq_shift, map_map.
      apply map_ext. intros i. f_equal. lia.
    + cbn [sumN fold_right]. fold (sumN lens).
      replace (s + N.of_nat (S k)) with (s + 1 + N.of_nat k) by lia. rewrite <- E3.
      rewrite <- Hstep. rewrite (N.min_r l (sym_off al as_ nal s * e)) by lia. lia.
Qed.

Lemma sender_slices_spec b T al as_ nal n l e r :
  partition_ok b T al as_ nal n -> 0 < e -> l + r = T * e -> r < e ->
  forall k s, s + N.of_nat k = n -> (0 < k)%nat ->
  sender_slices k al as_ nal e l s (sym_off al as_ nal s * e)
  = map (fun i => block_len_closed al as_ nal l e (s + N.of_nat i)) (seq 0 k).
Proof.
  intros P He HT Hr k. induction k as [|k IH]; intros s Hs Hk; [lia|].
  cbn [sender_slices seq map]. rewrite N.add_0_r.
  assert (Hs' : s < n) by lia.
  destruct (block_length_closed_form _ _ _ _ _ _ _ _ _ s P He HT Hr Hs') as [_ Hoff].
  destruct (closed_step _ _ _ _ _ _ _ _ _ s P He HT Hr Hs') as [Hstep Hpos].
  fold (nominal_syms al as_ nal s).
  set (o := sym_off al as_ nal s * e) in *.
  set (nom := nominal_syms al as_ nal s * e) in *.
  assert (Hnext : sym_off al as_ nal (s + 1) * e = o + nom).
  { rewrite sym_off_succ. unfold o, nom. ring. }
  assert (Hlen : (if l <? o + nom then l else o + nom) - o = block_len_closed al as_ nal l e s).
  { unfold block_len_closed. fold o nom. destruct (N.ltb_spec l (o + nom)); lia. }
  rewrite Hlen. f_equal.
  destruct k as [|k].
  - (* last block: the slice ends at l *)
    assert (s + 1 = n) by lia.
    pose proof (sym_off_total _ _ _ _ _ _ P) as Tt. rewrite <- H in Tt.
    assert (l <= o + nom). { rewrite <- Hnext, Tt. eapply syms_ge; [eassumption|lia]. }
    destruct (N.ltb_spec l (o + nom)); [rewrite N.eqb_refl; reflexivity|].
    assert (o + nom = l) by lia. rewrite H2, N.eqb_refl. reflexivity.
  - assert (Hs2 : s + 1 < n) by lia.
    destruct (block_length_closed_form _ _ _ _ _ _ _ _ _ (s + 1) P He HT Hr Hs2) as [_ Hoff2].
    rewrite Hnext in Hoff2.
    destruct (N.ltb_spec l (o + nom)); [lia|].
    destruct (N.eqb_spec (o + nom) l); [lia|].
    rewrite <- Hnext. rewrite IH by lia.
    rewrite <- seq_shift, map_map. apply map_ext. intros i. f_equal. lia.
Qed.

(* ---------- no u64 overflow ---------- *)
Lemma cmul64_small a b : a * b < U64 -> cmul64 a b = Some (a * b).
Proof. intros H. unfold cmul64. destruct (N.ltb_spec (a * b) U64); [reflexivity|lia]. Qed.
Lemma cadd64_small a b : a + b < U64 -> cadd64 a b = Some (a + b).
Proof. intros H. unfold cadd64. destruct (N.ltb_spec (a + b) U64); [reflexivity|lia]. Qed.

Lemma div_ceil64_eq a b : a < U64 -> div_ceil64 a b = Some (div_ceil a b).
Proof.
  intros H. unfold div_ceil64, div_ceil. destruct (N.eqb_spec (a mod b) 0) as [|NZ]; [reflexivity|].
  apply cadd64_small.
  destruct (N.eq_dec b 0) as [->|Hb].
  - replace (a / 0) with 0 by (destruct a; reflexivity). reflexivity.
  - destruct (N.eq_dec b 1) as [->|Hb1]; [rewrite N.mod_1_r in NZ; lia|].
    pose proof (N.div_mod a b Hb) as E. pose proof (N.mod_lt a b Hb) as L.
    set (q := a / b) in *. set (m := a mod b) in *. clearbody q m.
    assert (2 * q <= a) by nia. unfold U64 in *. lia.
Qed.

Lemma div_ceil_le a b : 0 < b -> div_ceil a b <= a.
Proof.
  intros Hb. destruct (div_ceil_is_ceil a b Hb) as [_ Hmin]. apply Hmin. nia.
Qed.

Lemma block_partitioning64_total b l e : l < U64 ->
  block_partitioning64 b l e = Some (block_partitioning b l e).
Proof.
  intros Hl. unfold block_partitioning64, block_partitioning.
  destruct (N.eqb_spec b 0) as [|Hb]; [reflexivity|]. destruct (N.eqb_spec e 0) as [|He]; [reflexivity|].
  assert (Ht : div_ceil l e <= l) by (apply div_ceil_le; lia).
  rewrite div_ceil64_eq by assumption. cbn [obind].
  assert (Hn : div_ceil (div_ceil l e) b <= div_ceil l e) by (apply div_ceil_le; lia).
  rewrite div_ceil64_eq by lia. cbn [obind]. cbv zeta.
  set (t := div_ceil l e) in *. set (n := div_ceil t b) in *.
  destruct (N.eqb_spec n 0) as [|Hn0]; [reflexivity|].
  rewrite div_ceil64_eq by lia. cbn [obind].
  destruct (div_floor_is_floor t n ltac:(lia)) as [Hf _]. unfold div_floor in *.
  rewrite cmul64_small by lia. cbn [obind]. unfold csub.
  destruct (N.leb_spec (t / n * n) t); [reflexivity|lia].
Qed.

Lemma block_length64_eq b T al as_ nal n l e r s :
  partition_ok b T al as_ nal n -> 0 < e -> l + r = T * e -> r < e -> s < n ->
  l + e < U64 ->
  block_length64 al as_ nal l e s = block_length al as_ nal l e s.
Proof.
  intros P He HT Hr Hs Hb.
  assert (HTe : T * e < U64) by lia.
  pose proof P as [C Lb Ls Ll Lt Ln Lp Ev Od].
  assert (BT : forall k, k <= T -> k * e < U64).
  { intros k Hk. assert (k * e <= T * e) by (apply N.mul_le_mono_r; assumption). lia. }
  assert (Has : as_ <= T) by nia.
  assert (Hal : al <= T).
  { destruct (N.eq_dec nal 0) as [Z|NZ]; [rewrite (Ev Z); assumption|nia]. }
  assert (Hnal : nal * al <= T) by nia.
  assert (Hn_le : n <= T) by nia.
  assert (Hsm : forall k, k + nal <= n -> k * as_ <= T).
  { intros k Hk. assert (k * as_ <= (n - nal) * as_) by (apply N.mul_le_mono_r; lia). lia. }
  unfold block_length64, block_length.
  rewrite (cmul64_small al e) by (apply BT; assumption). cbn [obind].
  rewrite (cmul64_small as_ e) by (apply BT; assumption). cbn [obind].
  rewrite cadd64_small by (assert (1 <= e) by lia; nia). cbn [obind].
  destruct (N.ltb_spec (s + 1) nal) as [|G]; [reflexivity|].
  destruct (N.eqb_spec (s + 1) nal) as [E|NE].
  - rewrite cmul64_small by (rewrite N.mul_assoc; apply BT; assumption). cbn [obind].
    destruct (nal * (al * e) <=? l); [reflexivity|].
    unfold csub at 1. destruct (N.leb_spec 1 nal); [|lia]. cbn [obind].
    rewrite cmul64_small; [reflexivity|]. rewrite N.mul_assoc; apply BT. nia.
  - rewrite cmul64_small by (rewrite N.mul_assoc; apply BT; assumption). cbn [obind].
    destruct (csub l (nal * (al * e))) as [l'|]; [|reflexivity]. cbn [obind].
    unfold csub at 1. destruct (N.leb_spec nal s); [|lia]. cbn [obind].
    rewrite cadd64_small by (assert (1 <= e) by lia; nia). cbn [obind].
    rewrite cmul64_small by (rewrite N.mul_assoc; apply BT; apply Hsm; lia). cbn [obind].
    destruct ((s - nal + 1) * (as_ * e) <=? l'); [reflexivity|].
    rewrite cmul64_small by (rewrite N.mul_assoc; apply BT; apply Hsm; lia). reflexivity.
Qed.

(* ---------- receiver's reconstruction of B from Z (RaptorQ / Raptor) ---------- *)
Lemma ceil_ceil a x y : 0 < x -> 0 < y -> div_ceil (div_ceil a x) y = div_ceil a (x * y).
Proof.
  intros Hx Hy. apply (is_ceil_unique a (x * y)); [|apply div_ceil_is_ceil; nia].
  destruct (div_ceil_is_ceil a x Hx) as [A1 M1].
  destruct (div_ceil_is_ceil (div_ceil a x) y Hy) as [A2 M2].
  set (c := div_ceil a x) in *. set (q := div_ceil c y) in *. clearbody c q.
  split.
  - assert (c * x <= q * y * x) by (apply N.mul_le_mono_r; assumption). nia.
  - intros q' H. apply M2. apply M1. nia.
Qed.

Lemma raptor_reconstruction_proof b l e : 0 < b -> 0 < e -> 0 < l ->
  let '(_, _, _, n) := block_partitioning b l e in
  block_partitioning (reconstructed_b n l e) l e = block_partitioning b l e.
Proof.
  intros Hb He Hl.
  pose proof (partition_covers_proof b l e Hb He Hl) as P.
  destruct (block_partitioning b l e) as [[[al as_] nal] n] eqn:E.
  destruct P as [P Hn].
  assert (Hal : al = div_ceil (div_ceil l e) n).
  { unfold block_partitioning in E.
    destruct (b =? 0); [inversion E; subst; destruct P; lia|].
    destruct (e =? 0); [inversion E; subst; destruct P; lia|]. cbv zeta in E.
    destruct (div_ceil (div_ceil l e) b =? 0); inversion E; subst; [destruct P; lia|reflexivity]. }
  pose proof P as [C Lb Ls Ll Lt Ln Lp Ev Od].
  assert (HB : reconstructed_b n l e = al).
  { unfold reconstructed_b. rewrite Hal, !ceil_ceil by lia. f_equal. lia. }
  rewrite HB. set (t := div_ceil l e) in *.
  assert (Halpos : 0 < al) by lia.
  assert (Hn' : div_ceil t al = n).
  { destruct (div_ceil_is_ceil t al Halpos) as [A1 M1].
    destruct (div_ceil_is_ceil t b Hb) as [A2 M2]. rewrite <- Hn in *.
    destruct (div_ceil_is_ceil t n Ln) as [A3 M3]. rewrite <- Hal in *.
    assert (div_ceil t al <= n) by (apply M1; nia).
    assert (n <= div_ceil t al).
    { apply M2. assert (div_ceil t al * al <= div_ceil t al * b) by (apply N.mul_le_mono_l; assumption). lia. }
    lia. }
  rewrite <- E. unfold block_partitioning. fold t.
  destruct (N.eqb_spec al 0); [lia|]. destruct (N.eqb_spec b 0); [lia|].
  destruct (N.eqb_spec e 0); [lia|]. cbv zeta. rewrite Hn', <- Hn. reflexivity.
Qed.

(* ---------- assembled statements about block_partitioning itself ---------- *)
Lemma ceil_witness l e : 0 < e -> exists r, l + r = div_ceil l e * e /\ r < e.
Proof. apply div_ceil_qr. Qed.

Lemma nth_map_seq {A} (f : nat -> A) k i d : (i < k)%nat -> nth i (map f (seq 0 k)) d = f i.
Proof.
  intros H. rewrite (nth_indep _ d (f 0%nat)) by (rewrite map_length, seq_length; lia).
  rewrite (map_nth f (seq 0 k) 0%nat i). rewrite seq_nth by lia. reflexivity.
Qed.

Definition last_short_only (al as_ nal n l e : N) (lens : list N) : Prop :=
  N.of_nat (length lens) = n
  /\ sumN lens = l
  /\ (forall i, N.of_nat i + 1 < n -> nth i lens 0 = nominal_syms al as_ nal (N.of_nat i) * e)
  /\ (0 < nth (N.to_nat (n - 1)) lens 0 <= nominal_syms al as_ nal (n - 1) * e).

Lemma block_lengths_proof b l e : 0 < b -> 0 < e -> 0 < l ->
  let '(al, as_, nal, n) := block_partitioning b l e in
  exists lens,
    receiver_lengths (N.to_nat n) al as_ nal l e 0 = map Some lens
    /\ sender_slices (N.to_nat n) al as_ nal e l 0 0 = lens
    /\ last_short_only al as_ nal n l e lens.
Proof.
  intros Hb He Hl.
  pose proof (partition_covers_proof b l e Hb He Hl) as P.
  destruct (block_partitioning b l e) as [[[al as_] nal] n].
  destruct P as [P _]. destruct (ceil_witness l e He) as (r & HT & Hr).
  set (T := div_ceil l e) in *.
  pose proof P as [C Lb Ls Ll Lt Ln Lp Ev Od].
  destruct (receiver_lengths_spec _ _ _ _ _ _ _ _ _ P He HT Hr (N.to_nat n) 0 ltac:(lia))
    as (lens & E1 & E2 & E3).
  exists lens. split; [assumption|]. split.
  - pose proof (sender_slices_spec _ _ _ _ _ _ _ _ _ P He HT Hr (N.to_nat n) 0 ltac:(lia) ltac:(lia)) as S.
    rewrite sym_off_0, N.mul_0_l in S.
    rewrite S, E2. reflexivity.
  - assert (Hlen : length lens = N.to_nat n) by (rewrite E2, map_length, seq_length; reflexivity).
    split; [lia|]. split.
    + rewrite sym_off_0, N.mul_0_l in E3.
      rewrite N.min_r in E3 by lia. rewrite N.add_0_l in E3. rewrite E3.
      replace (0 + N.of_nat (N.to_nat n)) with n by lia.
      rewrite (sym_off_total _ _ _ _ _ _ P). apply N.min_l. eapply syms_ge; [eassumption|lia].
    + assert (Hnth : forall i, (i < N.to_nat n)%nat -> nth i lens 0 = block_len_closed al as_ nal l e (N.of_nat i)).
      { intros i Hi. rewrite E2, nth_map_seq by assumption. reflexivity. }
      split.
      * intros i Hi. rewrite Hnth by lia.
        assert (Hs : N.of_nat i + 1 < n) by assumption.
        destruct (block_length_closed_form _ _ _ _ _ _ _ _ _ (N.of_nat i + 1) P He HT Hr Hs) as [_ Hoff].
        rewrite sym_off_succ in Hoff. unfold block_len_closed. apply N.min_l. nia.
      * rewrite Hnth by lia. replace (N.of_nat (N.to_nat (n - 1))) with (n - 1) by lia.
        destruct (closed_step _ _ _ _ _ _ _ _ _ (n - 1) P He HT Hr ltac:(lia)) as [_ Hpos].
        split; [assumption|]. unfold block_len_closed. apply N.le_min_l.
Qed.

Lemma no_u64_overflow_proof b l e : 0 < b -> 0 < e -> 0 < l -> l < 2 ^ 48 -> e < 2 ^ 16 ->
  block_partitioning64 b l e = Some (block_partitioning b l e)
  /\ let '(al, as_, nal, n) := block_partitioning b l e in
     forall s, s < n ->
       block_length64 al as_ nal l e s = block_length al as_ nal l e s
       /\ block_length al as_ nal l e s <> None.
Proof.
  intros Hb He Hl Hl48 He16.
  change (2 ^ 48) with 281474976710656 in Hl48. change (2 ^ 16) with 65536 in He16.
  split; [apply block_partitioning64_total; unfold U64; lia|].
  pose proof (partition_covers_proof b l e Hb He Hl) as P.
  destruct (block_partitioning b l e) as [[[al as_] nal] n].
  destruct P as [P _]. destruct (ceil_witness l e He) as (r & HT & Hr).
  intros s Hs. split.
  - eapply block_length64_eq; try eassumption. unfold U64; lia.
  - destruct (block_length_closed_form _ _ _ _ _ _ _ _ _ s P He HT Hr Hs) as [E _].
    rewrite E. discriminate.
Qed.

(* ---------- the executable specification holds of the model ---------- *)
Lemma rfc_ceil_eq a b : 0 < b -> rfc_ceil a b = div_ceil a b.
Proof.
  intros Hb. unfold rfc_ceil, div_ceil.
  pose proof (N.div_mod a b ltac:(lia)) as E. pose proof (N.mod_lt a b ltac:(lia)) as L.
  set (q := a / b) in *. set (m := a mod b) in *. clearbody q m.
  destruct (N.eqb_spec m 0) as [Z|NZ].
  - symmetry. apply (N.div_unique _ b q (b - 1)); lia.
  - symmetry. apply (N.div_unique _ b (q + 1) (m - 1)); [lia|]. 
    replace (b * (q + 1)) with (b * q + b) by ring. lia.
Qed.

Lemma eq4_refl x : eq4 x x = true.
Proof. destruct x as [[[a b] c] d]. cbn. rewrite !N.eqb_refl. reflexivity. Qed.

Lemma rfc_partition_eq b l e : 0 < b -> 0 < e -> rfc_partition b l e = block_partitioning b l e.
Proof.
  intros Hb He. unfold rfc_partition, block_partitioning.
  destruct (N.eqb_spec b 0); [lia|]. destruct (N.eqb_spec e 0); [lia|]. cbv zeta.
  rewrite (rfc_ceil_eq l e He), (rfc_ceil_eq _ b Hb).
  destruct (N.eqb_spec (div_ceil (div_ceil l e) b) 0) as [|NZ]; [reflexivity|].
  rewrite rfc_ceil_eq by lia. reflexivity.
Qed.

Lemma spec_partition_holds b l e : P_C07_partition b l e (block_partitioning b l e) = true.
Proof.
  unfold P_C07_partition.
  destruct (N.eqb_spec b 0) as [->|Hb]; [reflexivity|].
  destruct (N.eqb_spec e 0) as [->|He].
  - cbn [orb]. unfold block_partitioning. destruct (b =? 0); reflexivity.
  - cbn [orb]. rewrite rfc_partition_eq by lia. apply eq4_refl.
Qed.

Lemma spec_block_length_holds b l e s :
  P_C07_block_length b l e s
    (let '(al, as_, nal, _) := block_partitioning b l e in block_length al as_ nal l e s) = true.
Proof.
  unfold P_C07_block_length.
  destruct (N.eqb_spec b 0) as [->|Hb]; [destruct (rfc_partition 0 l e) as [[[? ?] ?] ?]; reflexivity|].
  destruct (N.eqb_spec e 0) as [->|He]; [destruct (rfc_partition b l 0) as [[[? ?] ?] ?]; reflexivity|].
  rewrite rfc_partition_eq by lia.
  destruct (N.eq_dec l 0) as [->|Hl].
  - rewrite partition_zero_length. cbn [orb]. destruct (N.ltb_spec s 0); [lia|reflexivity].
  - pose proof (partition_covers_proof b l e ltac:(lia) ltac:(lia) ltac:(lia)) as P.
    destruct (block_partitioning b l e) as [[[al as_] nal] n]. destruct P as [P _].
    cbn [orb]. destruct (N.ltb_spec s n) as [Hs|]; [|reflexivity]. cbn [negb].
    destruct (ceil_witness l e ltac:(lia)) as (r & HT & Hr).
    assert (He' : 0 < e) by lia.
    destruct (block_length_closed_form _ _ _ _ _ _ _ _ _ s P He' HT Hr Hs) as [E _].
    rewrite E. apply N.eqb_refl.
Qed.
