(* The abstract block encoder of Model.SenderCtl (enc / enc_read): an encoder that is not closable
   (its transfer is not the last one: every transfer of a carousel object, hence every transfer of an
   FDT instance) and is never forced (SenderCtl.session_run forces only when must_stop, which is
   false for the FDT session) never sets the close-object flag on a non-empty object, however many
   reads are made - the encoder-level half of P_C08_fdt_close_flag. *)
From Coq Require Import List NArith Lia.
From FluteV Require Import Model.SenderCtl.
Import ListNotations.
Open Scope N_scope.

(* n unforced reads: the flags of the packets they return, and the encoder afterwards *)
Fixpoint enc_reads (n : nat) (e : enc) : list bool * enc :=
  match n with
  | O => ([], e)
  | S k => match enc_read false e with
           | (Some c, e') => let (l, e'') := enc_reads k e' in (c :: l, e'')
           | (None, e') => enc_reads k e'
           end
  end.

Definition quiet (e : enc) : Prop := e_closable e = false /\ ((0 < e_left e)%nat \/ e_sent e <> 0).

Lemma enc_read_quiet e o e' : quiet e -> enc_read false e = (o, e') -> o <> Some true /\ quiet e'.
Proof.
  unfold quiet, enc_read. intros [Hc Hn] H.
  destruct (e_stopped e); [inversion H; subst; split; [discriminate | tauto]|].
  destruct (e_left e) as [|l] eqn:El.
  - destruct Hn as [Hn|Hn]; [lia|].
    destruct (N.eqb_spec (e_sent e) 0) as [E0|E0]; [contradiction|].
    inversion H; subst; cbn. split; [discriminate | tauto].
  - rewrite Hc in H. cbn in H. inversion H; subst; cbn. split; [discriminate|].
    split; [reflexivity | right; lia].
Qed.

Theorem unforced_nonclosable_never_flags n : forall e,
  quiet e -> Forall (fun c => c = false) (fst (enc_reads n e)) /\ quiet (snd (enc_reads n e)).
Proof.
  induction n as [|k IH]; intros e Q; cbn [enc_reads]; [split; [constructor | exact Q]|].
  destruct (enc_read false e) as [o e'] eqn:E.
  destruct (enc_read_quiet e o e' Q E) as [Ho Q'].
  destruct o as [c|].
  - specialize (IH e' Q'). destruct (enc_reads k e') as [l e'']. cbn [fst snd] in *.
    destruct IH as [IH1 IH2]. split; [|exact IH2].
    constructor; [destruct c; [exfalso; apply Ho; reflexivity | reflexivity] | exact IH1].
  - apply IH. exact Q'.
Qed.
