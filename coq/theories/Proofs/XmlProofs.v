(* Round trip of the reference XML printer / parser (Model/Xml.v):
     parse_fdt (print_fdt x) = Some x          for every abstract instance x (all byte strings)
     parse_fdt (print_fdt_with esc_raw x) = Some x   when no string of x contains a control byte
   (esc_raw = the escaping of flute's serializer).  Proof: per-character facts about the two
   escapings are established by a sweep over all 256 bytes (vm_compute, lifted to a universal
   statement: the domain is finite), everything else by induction. *)
From FluteV Require Import Model.Xml.
From Coq Require Import Lia.
Open Scope char_scope.
Open Scope bool_scope.
Open Scope N_scope.

(* ------------------------------------------------------------------ all 256 bytes *)
Definition all_ascii : list ascii := map ascii_of_nat (seq 0 256).

Lemma ascii_sweep (P : ascii -> bool) : forallb P all_ascii = true -> forall c, P c = true.
Proof.
  intros H c. rewrite forallb_forall in H. apply H. unfold all_ascii.
  rewrite <- (ascii_nat_embedding c). apply in_map. apply in_seq.
  pose proof (nat_ascii_bounded c). lia.
Qed.

Ltac sweep := let c := fresh "c" in intro c; revert c; apply ascii_sweep; vm_compute; reflexivity.

Lemma eqb_refl_a c : Ascii.eqb c c = true.
Proof. apply Ascii.eqb_refl. Qed.

Lemma str_eqb_refl s : str_eqb s s = true.
Proof. induction s as [|c s IH]; cbn; [reflexivity|]. rewrite eqb_refl_a, IH. reflexivity. Qed.

Lemma str_eqb_eq a b : str_eqb a b = true -> a = b.
Proof.
  revert b; induction a as [|x a IH]; intros [|y b] H; cbn in H; try discriminate; [reflexivity|].
  apply andb_true_iff in H as [H1 H2]. apply Ascii.eqb_eq in H1. subst. f_equal. auto.
Qed.

(* facts about character classes, each by the sweep *)
Lemma ns_not_ws : forall c, implb (name_start c) (negb (is_ws c)) = true. Proof. sweep. Qed.
Lemma ns_not_gt : forall c, implb (name_start c) (negb (Ascii.eqb c ">")) = true. Proof. sweep. Qed.
Lemma ns_not_slash : forall c, implb (name_start c) (negb (Ascii.eqb c "/")) = true. Proof. sweep. Qed.
Lemma ns_not_qm : forall c, implb (name_start c) (negb (Ascii.eqb c "?")) = true. Proof. sweep. Qed.
Lemma ns_not_bang : forall c, implb (name_start c) (negb (Ascii.eqb c "!")) = true. Proof. sweep. Qed.
Lemma ns_nc : forall c, implb (name_start c) (name_char c) = true. Proof. sweep. Qed.

Lemma impl_use a b : implb a (negb b) = true -> a = true -> b = false.
Proof. destruct a, b; cbn; congruence. Qed.

(* ------------------------------------------------------------------ span *)
Lemma span_app p a b :
  forallb p a = true -> match b with [] => True | c :: _ => p c = false end ->
  span p (a ++ b) = (a, b).
Proof.
  intros Ha Hb. induction a as [|x a IH]; cbn in *.
  - destruct b as [|c b]; cbn; [reflexivity|]. rewrite Hb. reflexivity.
  - apply andb_true_iff in Ha as [Hx Ha]. rewrite Hx, (IH Ha). reflexivity.
Qed.

Lemma span_nil_head p c r : p c = false -> span p (c :: r) = ([], c :: r).
Proof. intros H. cbn. rewrite H. reflexivity. Qed.

Lemma name_ok_inv n : name_ok n = true ->
  exists c r, n = c :: r /\ name_start c = true /\ forallb name_char n = true.
Proof.
  destruct n as [|c r]; cbn; [discriminate|]. intros H. apply andb_true_iff in H as [H1 H2].
  exists c, r. repeat split; assumption.
Qed.

Lemma lex_name_app n rest :
  name_ok n = true -> match rest with [] => True | c :: _ => name_char c = false end ->
  lex_name (n ++ rest) = Some (n, rest).
Proof.
  intros Hn Hr. destruct (name_ok_inv n Hn) as (c & r & -> & Hs & Hall).
  unfold lex_name. cbn [app]. rewrite Hs. change (c :: r ++ rest) with ((c :: r) ++ rest).
  rewrite (span_app _ _ _ Hall Hr). reflexivity.
Qed.

(* ------------------------------------------------------------------ unescaping *)
Lemma urun_app a p s1 s2 :
  urun a p (s1 ++ s2) =
  match urun a p s1 with
  | None => None
  | Some (o1, p1) => match urun a p1 s2 with None => None | Some (o2, p2) => Some (o1 ++ o2, p2) end
  end.
Proof.
  revert p; induction s1 as [|c s1 IH]; intros p; cbn [app urun].
  - destruct (urun a p s2) as [[o2 p2]|]; reflexivity.
  - destruct (ustep a p c) as [[o p']|]; [|reflexivity]. rewrite IH.
    destruct (urun a p' s1) as [[o1 p1]|]; [|reflexivity].
    destruct (urun a p1 s2) as [[o2 p2]|]; [|reflexivity]. rewrite app_assoc. reflexivity.
Qed.

(* what the lexer needs from an escaping [esc] on the characters [okc] it is applied to *)
Definition safe_char (c : ascii) : bool :=
  negb (Ascii.eqb c "<") && negb (Ascii.eqb c """") && negb (code c =? 13).

Record esc_ok (esc : ascii -> str) (okc : ascii -> bool) : Prop := {
  eo_safe : forall c, okc c = true -> forallb safe_char (esc c) = true;
  eo_run : forall a c, okc c = true -> urun a None (esc c) = Some ([c], None)
}.

Lemma esc_ref_ok : esc_ok esc_ref (fun _ => true).
Proof.
  split.
  - intros c _. revert c. sweep.
  - intros a c _. destruct a.
    + assert (H : forall c, (match urun true None (esc_ref c) with
                             | Some ([c'], None) => Ascii.eqb c' c | _ => false end) = true) by sweep.
      specialize (H c). destruct (urun true None (esc_ref c)) as [[[|c' [|]] [|]]|]; try discriminate.
      apply Ascii.eqb_eq in H. subst. reflexivity.
    + assert (H : forall c, (match urun false None (esc_ref c) with
                             | Some ([c'], None) => Ascii.eqb c' c | _ => false end) = true) by sweep.
      specialize (H c). destruct (urun false None (esc_ref c)) as [[[|c' [|]] [|]]|]; try discriminate.
      apply Ascii.eqb_eq in H. subst. reflexivity.
Qed.

Definition printable (c : ascii) : bool := 32 <=? code c.

Lemma esc_raw_ok : esc_ok esc_raw printable.
Proof.
  split.
  - intros c. assert (H : forall c, implb (printable c) (forallb safe_char (esc_raw c)) = true) by sweep.
    specialize (H c). destruct (printable c); cbn in H; [intros _; exact H|discriminate].
  - intros a c Hc. destruct a.
    + assert (H : forall c, implb (printable c) (match urun true None (esc_raw c) with
                             | Some ([c'], None) => Ascii.eqb c' c | _ => false end) = true) by sweep.
      specialize (H c). rewrite Hc in H. cbn [implb] in H.
      destruct (urun true None (esc_raw c)) as [[[|c' [|]] [|]]|]; try discriminate.
      apply Ascii.eqb_eq in H. subst. reflexivity.
    + assert (H : forall c, implb (printable c) (match urun false None (esc_raw c) with
                             | Some ([c'], None) => Ascii.eqb c' c | _ => false end) = true) by sweep.
      specialize (H c). rewrite Hc in H. cbn [implb] in H.
      destruct (urun false None (esc_raw c)) as [[[|c' [|]] [|]]|]; try discriminate.
      apply Ascii.eqb_eq in H. subst. reflexivity.
Qed.

Section Esc.
  Variable esc : ascii -> str.
  Variable okc : ascii -> bool.
  Hypothesis EO : esc_ok esc okc.

  Definition str_ok (s : str) : bool := forallb okc s.

  Lemma urun_esc_str a s : str_ok s = true -> urun a None (esc_str esc s) = Some (s, None).
  Proof.
    induction s as [|c s IH]; intros H; [reflexivity|].
    unfold str_ok in *. cbn [forallb] in H. apply andb_true_iff in H as [Hc Hs].
    unfold esc_str in *. cbn [flat_map]. rewrite urun_app, (eo_run _ _ EO a c Hc), (IH Hs). reflexivity.
  Qed.

  Lemma unesc_esc_str a s : str_ok s = true -> unesc a (esc_str esc s) = Some s.
  Proof. intros H. unfold unesc. rewrite (urun_esc_str a s H). reflexivity. Qed.

  Lemma esc_str_safe s : str_ok s = true -> forallb safe_char (esc_str esc s) = true.
  Proof.
    induction s as [|c s IH]; intros H; [reflexivity|].
    unfold str_ok in *. cbn [forallb] in H. apply andb_true_iff in H as [Hc Hs].
    unfold esc_str in *. cbn [flat_map]. rewrite forallb_app, (eo_safe _ _ EO c Hc), (IH Hs). reflexivity.
  Qed.

  Lemma esc_nonempty c : okc c = true -> esc c <> [].
  Proof. intros Hc E. pose proof (eo_run _ _ EO true c Hc) as H. rewrite E in H. cbn in H. discriminate. Qed.

  Lemma safe_weaken (p : ascii -> bool) s :
    (forall c, safe_char c = true -> p c = true) -> forallb safe_char s = true -> forallb p s = true.
  Proof.
    intros Hp H. rewrite forallb_forall in *. intros c Hc. apply Hp, H, Hc.
  Qed.

  Lemma safe_not_quote c : safe_char c = true -> negb (Ascii.eqb c """") = true.
  Proof. unfold safe_char. intros H. apply andb_true_iff in H as [H _]. apply andb_true_iff in H as [_ H]. exact H. Qed.
  Lemma safe_not_lt c : safe_char c = true -> negb (Ascii.eqb c "<") = true.
  Proof. unfold safe_char. intros H. apply andb_true_iff in H as [H _]. apply andb_true_iff in H as [H _]. exact H. Qed.
  Lemma safe_not_cr c : safe_char c = true -> negb (code c =? 13) = true.
  Proof. unfold safe_char. intros H. apply andb_true_iff in H as [_ H]. exact H. Qed.

  (* ---------------------------------------------------------------- attributes *)
  Definition attr_ok (a : str * str) : bool := name_ok (fst a) && str_ok (snd a).

  Lemma lex_attrs_S f s acc : lex_attrs (S f) s acc =
    let (w, s1) := span is_ws s in
    match s1 with
    | [] => None
    | c1 :: r1 =>
      if Ascii.eqb c1 ">" then Some (rev acc, false, r1)
      else if Ascii.eqb c1 "/" then
        match r1 with
        | c2 :: r2 => if Ascii.eqb c2 ">" then Some (rev acc, true, r2) else None
        | [] => None
        end
      else
        match w with
        | [] => None
        | _ :: _ =>
          match lex_name s1 with
          | None => None
          | Some (n, s2) =>
            match skip_ws s2 with
            | [] => None
            | ceq :: s4 =>
              if Ascii.eqb ceq "=" then
                match skip_ws s4 with
                | [] => None
                | q :: s6 =>
                  if Ascii.eqb q """" || Ascii.eqb q "'" then
                    let (raw, s7) := span (fun c => negb (Ascii.eqb c q)) s6 in
                    match s7 with
                    | [] => None
                    | _ :: s8 =>
                      match unesc true raw with
                      | Some v => lex_attrs f s8 ((n, v) :: acc)
                      | None => None
                      end
                    end
                  else None
                end
              else None
            end
          end
        end
    end.
  Proof. reflexivity. Qed.

  Definition tag_close (e : bool) : str := if e then lit "/>" else lit ">".

  Lemma lex_attrs_print : forall al fuel acc e rest,
    forallb attr_ok al = true -> (List.length al < fuel)%nat ->
    lex_attrs fuel (flat_map (print_attr esc) al ++ tag_close e ++ rest) acc = Some (rev acc ++ al, e, rest).
  Proof.
    induction al as [|[n v] al IH]; intros fuel acc e rest Hok Hf;
      (destruct fuel as [|f]; [cbn in Hf; lia|]); rewrite lex_attrs_S.
    - cbn [flat_map app]. destruct e; cbn; rewrite app_nil_r; reflexivity.
    - cbn [forallb] in Hok. apply andb_true_iff in Hok as [Ha Hal].
      unfold attr_ok in Ha. cbn [fst snd] in Ha. apply andb_true_iff in Ha as [Hn Hv].
      destruct (name_ok_inv n Hn) as (c & r & En & Hs & Hall).
      cbn [flat_map]. unfold print_attr at 1. cbn [fst snd].
      (* white space, then the name *)
      replace ((" " :: n ++ "=" :: """" :: esc_str esc v ++ [""""]) ++ flat_map (print_attr esc) al)
        with ([" "] ++ (n ++ "=" :: """" :: esc_str esc v ++ """" :: flat_map (print_attr esc) al))
        by (cbn; rewrite <- !app_assoc; cbn; rewrite <- !app_assoc; reflexivity).
      rewrite <- app_assoc.
      rewrite (span_app is_ws [" "]); [|reflexivity|].
      2:{ rewrite En. cbn. apply (impl_use _ _ (ns_not_ws c) Hs). }
      set (tail := "=" :: """" :: esc_str esc v ++ """" :: flat_map (print_attr esc) al).
      rewrite <- app_assoc.
      assert (Hnm : lex_name (n ++ tail ++ tag_close e ++ rest) = Some (n, tail ++ tag_close e ++ rest)).
      { apply lex_name_app; [exact Hn|]. unfold tail. cbn. reflexivity. }
      rewrite En in *. cbn [app]. cbn [app] in Hnm.
      rewrite (impl_use _ _ (ns_not_gt c) Hs), (impl_use _ _ (ns_not_slash c) Hs).
      rewrite Hnm. unfold tail. cbn [app].
      unfold skip_ws. rewrite span_nil_head by reflexivity. cbn [snd].
      change (Ascii.eqb "=" "=") with true. cbv iota.
      rewrite span_nil_head by reflexivity. cbn [snd].
      change (Ascii.eqb """" """" || Ascii.eqb """" "'") with true. cbv iota.
      rewrite <- app_assoc. cbn [app].
      rewrite (span_app (fun c0 => negb (Ascii.eqb c0 """")) (esc_str esc v)).
      2:{ apply (safe_weaken _ _ safe_not_quote). apply esc_str_safe, Hv. }
      2:{ reflexivity. }
      rewrite (unesc_esc_str true v Hv).
      rewrite IH; [|exact Hal|cbn in Hf; lia].
      cbn [rev]. rewrite <- app_assoc. reflexivity.
  Qed.

  (* names of a printed attribute list are unique iff they were *)
  Definition tok_ok (t : token) : bool :=
    match t with
    | TStart n al _ => name_ok n && forallb attr_ok al && nodup_names al
    | TEnd n => name_ok n
    | TText s => str_ok s && negb (match s with [] => true | _ => false end)
    end.

  (* no two adjacent text tokens *)
  Fixpoint texts_ok (ts : list token) : bool :=
    match ts with
    | [] => true
    | TText _ :: r => match r with TText _ :: _ => false | _ => true end && texts_ok r
    | _ :: r => texts_ok r
    end.

  Definition toks_ok (ts : list token) : bool := forallb tok_ok ts && texts_ok ts.

  Lemma lex_S f s : lex (S f) s =
    match s with
    | [] => Some []
    | c :: r =>
      if Ascii.eqb c "<" then
        match r with
        | [] => None
        | c1 :: r1 =>
          if Ascii.eqb c1 "/" then
            match lex_name r1 with
            | Some (n, r2) =>
              match skip_ws r2 with
              | c3 :: r3 => if Ascii.eqb c3 ">" then option_map (cons (TEnd n)) (lex f r3) else None
              | [] => None
              end
            | None => None
            end
          else if Ascii.eqb c1 "?" then
            match skip_pi r1 with Some r2 => lex f r2 | None => None end
          else if Ascii.eqb c1 "!" then
            match r1 with
            | c2 :: c3 :: r3 =>
              if Ascii.eqb c2 "-" && Ascii.eqb c3 "-" then
                match skip_comment r3 with Some r4 => lex f r4 | None => None end
              else None
            | _ => None
            end
          else
            match lex_name r with
            | Some (n, r2) =>
              match lex_attrs (S (List.length r2)) r2 [] with
              | Some (al, e, r3) =>
                if nodup_names al then option_map (cons (TStart n al e)) (lex f r3) else None
              | None => None
              end
            | None => None
            end
        end
      else
        let (raw, rest) := span (fun c => negb (Ascii.eqb c "<")) s in
        match unesc false raw with
        | Some t => option_map (cons (TText t)) (lex f rest)
        | None => None
        end
    end.
  Proof. reflexivity. Qed.

  Lemma print_attr_len a : (1 <= List.length (print_attr esc a))%nat.
  Proof. unfold print_attr. cbn. lia. Qed.

  Lemma flat_map_len_ge {A} (f : A -> str) l :
    (forall a, (1 <= List.length (f a))%nat) -> (List.length l <= List.length (flat_map f l))%nat.
  Proof.
    intros H. induction l as [|a l IH]; cbn; [lia|]. rewrite app_length. specialize (H a). lia.
  Qed.

  (* the head of what follows a text token is markup (or nothing) *)
  Definition next_not_text (ts : list token) : bool := match ts with TText _ :: _ => false | _ => true end.

  Lemma print_head_lt ts : forallb tok_ok ts = true -> next_not_text ts = true ->
    match print_tokens esc ts with [] => True | c :: _ => negb (Ascii.eqb c "<") = false end.
  Proof.
    destruct ts as [|[n al e|n|s] r]; cbn; intros _ H; try exact I; try reflexivity. discriminate.
  Qed.

  Lemma lex_print : forall ts fuel, toks_ok ts = true -> (List.length ts < fuel)%nat ->
    lex fuel (print_tokens esc ts) = Some ts.
  Proof.
    induction ts as [|t ts IH]; intros fuel Hok Hf; (destruct fuel as [|f]; [cbn in Hf; lia|]); rewrite lex_S.
    - reflexivity.
    - unfold toks_ok in Hok. apply andb_true_iff in Hok as [Hall Htx]. cbn [forallb] in Hall.
      apply andb_true_iff in Hall as [Ht Hall].
      assert (Hrest : toks_ok ts = true).
      { unfold toks_ok. rewrite Hall. cbn. destruct t; cbn in Htx; try exact Htx.
        apply andb_true_iff in Htx as [_ Htx]. exact Htx. }
      assert (Hfl : (List.length ts < f)%nat) by (cbn in Hf; lia).
      unfold print_tokens. cbn [flat_map]. fold (print_tokens esc ts).
      destruct t as [n al e|n|s]; cbn [tok_ok] in Ht.
      + (* start tag *)
        apply andb_true_iff in Ht as [Ht Hnd]. apply andb_true_iff in Ht as [Hn Hal].
        destruct (name_ok_inv n Hn) as (c & r & En & Hs & Hnall).
        unfold print_token. cbn [app].
        change (Ascii.eqb "<" "<") with true. cbv iota.
        assert (Hnm : lex_name (n ++ flat_map (print_attr esc) al ++ tag_close e ++ print_tokens esc ts)
                      = Some (n, flat_map (print_attr esc) al ++ tag_close e ++ print_tokens esc ts)).
        { apply lex_name_app; [exact Hn|]. destruct al as [|a al]; cbn.
          - destruct e; reflexivity.
          - reflexivity. }
        replace ((n ++ flat_map (print_attr esc) al ++ (if e then lit "/>" else lit ">")) ++ print_tokens esc ts)
          with (n ++ flat_map (print_attr esc) al ++ tag_close e ++ print_tokens esc ts)
          by (unfold tag_close; rewrite <- !app_assoc; reflexivity).
        rewrite En in *. cbn [app] in *.
        rewrite (impl_use _ _ (ns_not_slash c) Hs), (impl_use _ _ (ns_not_qm c) Hs), (impl_use _ _ (ns_not_bang c) Hs).
        rewrite Hnm.
        rewrite lex_attrs_print; [|exact Hal|].
        2:{ rewrite !app_length. pose proof (flat_map_len_ge (print_attr esc) al print_attr_len). lia. }
        cbn [rev app]. rewrite Hnd. rewrite (IH f Hrest Hfl). reflexivity.
      + (* end tag *)
        unfold print_token. cbn [app].
        change (Ascii.eqb "<" "<") with true. cbv iota.
        change (Ascii.eqb "/" "/") with true. cbv iota.
        rewrite <- app_assoc. rewrite lex_name_app; [|exact Ht|reflexivity].
        cbn [app]. unfold skip_ws. rewrite span_nil_head by reflexivity. cbn [snd].
        change (Ascii.eqb ">" ">") with true. cbv iota.
        rewrite (IH f Hrest Hfl). reflexivity.
      + (* text *)
        apply andb_true_iff in Ht as [Hs Hne].
        destruct s as [|c s]; [discriminate|].
        unfold print_token.
        assert (Hsafe := esc_str_safe (c :: s) Hs).
        assert (Hnn : esc_str esc (c :: s) <> []).
        { cbn. cbn in Hs. apply andb_true_iff in Hs as [Hc _]. pose proof (esc_nonempty c Hc).
          destruct (esc c); [congruence|discriminate]. }
        remember (esc_str esc (c :: s)) as raw eqn:Eraw.
        destruct raw as [|c0 raw0]; [congruence|].
        cbn [app].
        assert (Hc0 : Ascii.eqb c0 "<" = false).
        { cbn in Hsafe. apply andb_true_iff in Hsafe as [H0 _]. apply safe_not_lt in H0.
          destruct (Ascii.eqb c0 "<"); [discriminate|reflexivity]. }
        rewrite Hc0.
        change (c0 :: raw0 ++ print_tokens esc ts) with ((c0 :: raw0) ++ print_tokens esc ts).
        rewrite (span_app (fun c1 => negb (Ascii.eqb c1 "<")) (c0 :: raw0)).
        2:{ apply (safe_weaken _ _ safe_not_lt). exact Hsafe. }
        2:{ apply print_head_lt; [exact Hall|]. cbn in Htx. apply andb_true_iff in Htx as [H1 _].
            destruct ts as [|[| |] ?]; try reflexivity. discriminate. }
        rewrite Eraw. rewrite (unesc_esc_str false (c :: s) Hs).
        rewrite (IH f Hrest Hfl). reflexivity.
  Qed.

  (* every printed token is at least one byte *)
  Lemma print_token_len t : tok_ok t = true -> (1 <= List.length (print_token esc t))%nat.
  Proof.
    destruct t as [n al e|n|s]; cbn; intros H; try lia.
    apply andb_true_iff in H as [Hs Hne]. destruct s as [|c s]; [discriminate|].
    cbn in Hs. apply andb_true_iff in Hs as [Hc _]. cbn. rewrite app_length.
    pose proof (esc_nonempty c Hc). destruct (esc c); [congruence|cbn; lia].
  Qed.

  Lemma print_tokens_len ts : forallb tok_ok ts = true ->
    (List.length ts <= List.length (print_tokens esc ts))%nat.
  Proof.
    induction ts as [|t ts IH]; cbn; intros H; [lia|]. apply andb_true_iff in H as [Ht Hts].
    rewrite app_length. pose proof (print_token_len t Ht). specialize (IH Hts). unfold print_tokens in IH. lia.
  Qed.

  (* no carriage return in what is printed: end-of-line normalisation leaves it alone *)
  Definition no_cr (s : str) : bool := forallb (fun c => negb (code c =? 13)) s.

  Lemma norm_eol_id s : no_cr s = true -> norm_eol s = s.
  Proof.
    induction s as [|c s IH]; cbn; intros H; [reflexivity|].
    apply andb_true_iff in H as [Hc Hs]. destruct (code c =? 13); [discriminate|]. rewrite (IH Hs). reflexivity.
  Qed.

  Lemma name_char_no_cr : forall c, implb (name_char c) (negb (code c =? 13)) = true.
  Proof. sweep. Qed.

  Lemma name_no_cr n : name_ok n = true -> no_cr n = true.
  Proof.
    intros H. destruct (name_ok_inv n H) as (_ & _ & _ & _ & Hall). unfold no_cr.
    rewrite forallb_forall in *. intros c Hc. specialize (Hall c Hc).
    pose proof (name_char_no_cr c) as Hi. rewrite Hall in Hi. exact Hi.
  Qed.

  Lemma esc_str_no_cr s : str_ok s = true -> no_cr (esc_str esc s) = true.
  Proof. intros H. apply (safe_weaken _ _ safe_not_cr). apply esc_str_safe, H. Qed.

  Lemma no_cr_app a b : no_cr (a ++ b) = no_cr a && no_cr b.
  Proof. apply forallb_app. Qed.

  Lemma attrs_no_cr al : forallb attr_ok al = true -> no_cr (flat_map (print_attr esc) al) = true.
  Proof.
    induction al as [|[n v] al IH]; intros H; [reflexivity|].
    cbn [forallb] in H. apply andb_true_iff in H as [Ha Hal]. unfold attr_ok in Ha. cbn [fst snd] in Ha.
    apply andb_true_iff in Ha as [Hn Hv].
    cbn [flat_map]. rewrite no_cr_app, (IH Hal), andb_true_r. unfold print_attr. cbn [fst snd].
    change (" " :: n ++ "=" :: """" :: esc_str esc v ++ [""""])
      with ([" "] ++ n ++ ["="; """"] ++ esc_str esc v ++ [""""]).
    rewrite !no_cr_app, (name_no_cr n Hn), (esc_str_no_cr v Hv). reflexivity.
  Qed.

  Lemma print_tokens_no_cr ts : forallb tok_ok ts = true -> no_cr (print_tokens esc ts) = true.
  Proof.
    induction ts as [|t ts IH]; intros H; [reflexivity|]. cbn [forallb] in H. apply andb_true_iff in H as [Ht Hts].
    unfold print_tokens. cbn [flat_map]. fold (print_tokens esc ts).
    rewrite no_cr_app, (IH Hts), andb_true_r.
    destruct t as [n al e|n|s]; cbn [tok_ok] in Ht; unfold print_token.
    - apply andb_true_iff in Ht as [Ht _]. apply andb_true_iff in Ht as [Hn Hal].
      change ("<" :: n ++ flat_map (print_attr esc) al ++ (if e then lit "/>" else lit ">"))
        with (["<"] ++ n ++ flat_map (print_attr esc) al ++ (if e then lit "/>" else lit ">")).
      rewrite !no_cr_app, (name_no_cr n Hn), (attrs_no_cr al Hal). destruct e; reflexivity.
    - change ("<" :: "/" :: n ++ [">"]) with (["<"; "/"] ++ n ++ [">"]).
      rewrite !no_cr_app, (name_no_cr n Ht). reflexivity.
    - apply andb_true_iff in Ht as [Hs _]. apply esc_str_no_cr, Hs.
  Qed.

  (* ---------------------------------------------------------------- the FDT schema *)
  Definition ostr_ok (o : option str) : bool := match o with Some s => str_ok s | None => true end.
  Definition xoti_ok (o : xoti) : bool :=
    ostr_ok (xo_id o) && ostr_ok (xo_inst o) && ostr_ok (xo_b o) && ostr_ok (xo_e o) && ostr_ok (xo_maxn o)
    && ostr_ok (xo_ssi o).
  Definition xcache_ok (c : xcache) : bool :=
    match c with XNoCache t | XMaxStale t | XExpires t => str_ok t end.
  Definition xfile_ok (f : xfile) : bool :=
    str_ok (xf_loc f) && str_ok (xf_toi f) && ostr_ok (xf_clen f) && ostr_ok (xf_tlen f) && ostr_ok (xf_ctype f)
    && ostr_ok (xf_cenc f) && ostr_ok (xf_md5 f) && xoti_ok (xf_oti f) && ostr_ok (xf_etag f)
    && match xf_cache f with Some c => xcache_ok c | None => true end && forallb str_ok (xf_groups f).
  Definition xfdt_ok (i : xfdt) : bool :=
    str_ok (xi_expires i) && ostr_ok (xi_complete i) && ostr_ok (xi_full i) && xoti_ok (xi_oti i)
    && forallb xfile_ok (xi_files i) && forallb str_ok (xi_groups i).

  (* --- unique attribute names: the printed names are a subsequence of a fixed duplicate-free list *)
  Fixpoint nodup_strs (l : list str) : bool :=
    match l with [] => true | a :: r => negb (existsb (str_eqb a) r) && nodup_strs r end.

  Lemma existsb_fst x al :
    existsb (fun b : str * str => str_eqb x (fst b)) al = existsb (str_eqb x) (map fst al).
  Proof. induction al as [|b al IH]; cbn; [reflexivity|]. rewrite IH. reflexivity. Qed.

  Lemma nodup_names_strs al : nodup_names al = nodup_strs (map fst al).
  Proof.
    induction al as [|a al IH]; [reflexivity|]. cbn [map nodup_strs]. rewrite <- IH, <- existsb_fst. reflexivity.
  Qed.

  Inductive subseq : list str -> list str -> Prop :=
  | ss_nil l : subseq [] l
  | ss_take x a b : subseq a b -> subseq (x :: a) (x :: b)
  | ss_skip y a b : subseq a b -> subseq a (y :: b).

  Lemma subseq_notin x a b : subseq a b -> existsb (str_eqb x) b = false -> existsb (str_eqb x) a = false.
  Proof.
    induction 1 as [l|y a b H IH|y a b H IH]; cbn; intros Hb; [reflexivity| |].
    - apply orb_false_iff in Hb as [H1 H2]. rewrite H1, (IH H2). reflexivity.
    - apply orb_false_iff in Hb as [_ H2]. apply IH, H2.
  Qed.

  Lemma subseq_nodup a b : subseq a b -> nodup_strs b = true -> nodup_strs a = true.
  Proof.
    induction 1 as [l|y a b H IH|y a b H IH]; cbn; intros Hb; [reflexivity| |].
    - apply andb_true_iff in Hb as [H1 H2]. rewrite (IH H2), andb_true_r.
      apply negb_true_iff in H1. rewrite (subseq_notin y a b H H1). reflexivity.
    - apply andb_true_iff in Hb as [_ H2]. apply IH, H2.
  Qed.

  Lemma subseq_opt n o a b : subseq a b -> subseq (map fst (opt_attr n o) ++ a) (lit n :: b).
  Proof. intros H. destruct o; cbn; [apply ss_take|apply ss_skip]; exact H. Qed.

  Definition oti_names : list str :=
    [lit "FEC-OTI-FEC-Encoding-ID"; lit "FEC-OTI-FEC-Instance-ID"; lit "FEC-OTI-Maximum-Source-Block-Length";
     lit "FEC-OTI-Encoding-Symbol-Length"; lit "FEC-OTI-Max-Number-of-Encoding-Symbols";
     lit "FEC-OTI-Scheme-Specific-Info"].

  Lemma oti_attrs_subseq o a b : subseq a b -> subseq (map fst (oti_attrs o) ++ a) (oti_names ++ b).
  Proof.
    intros H. unfold oti_attrs, oti_names. rewrite !map_app, <- !app_assoc. cbn [app].
    repeat apply subseq_opt. exact H.
  Qed.

  Lemma file_attrs_nodup f : nodup_names (file_attrs f) = true.
  Proof.
    rewrite nodup_names_strs.
    apply (subseq_nodup _ ([lit "Content-Location"; lit "TOI"; lit "Content-Length"; lit "Transfer-Length";
                             lit "Content-Type"; lit "Content-Encoding"; lit "Content-MD5"] ++ oti_names
                            ++ [lit "mbms2012:File-ETag"])); [|vm_compute; reflexivity].
    unfold file_attrs. cbn [map app]. apply ss_take, ss_take. rewrite !map_app.
    repeat apply subseq_opt. rewrite <- (app_nil_r (map fst (opt_attr "mbms2012:File-ETag" (xf_etag f)))).
    apply oti_attrs_subseq. apply subseq_opt. apply ss_nil.
  Qed.

  Lemma inst_attrs_nodup i : nodup_names (inst_attrs i) = true.
  Proof.
    rewrite nodup_names_strs.
    apply (subseq_nodup _ ([lit "Expires"; lit "Complete"] ++ oti_names ++ [lit "mbms2008:FullFDT"]));
      [|vm_compute; reflexivity].
    unfold inst_attrs. cbn [map app]. apply ss_take. rewrite !map_app. apply subseq_opt.
    rewrite <- (app_nil_r (map fst (opt_attr "mbms2008:FullFDT" (xi_full i)))).
    apply oti_attrs_subseq. apply subseq_opt. apply ss_nil.
  Qed.

  (* --- every attribute of a printed list is acceptable *)
  Lemma opt_attr_ok n o : name_ok (lit n) = true -> ostr_ok o = true -> forallb attr_ok (opt_attr n o) = true.
  Proof. intros Hn Ho. destruct o; cbn; [|reflexivity]. unfold attr_ok. cbn [fst snd]. rewrite Hn. cbn in Ho. rewrite Ho. reflexivity. Qed.

  Lemma oti_attrs_ok o : xoti_ok o = true -> forallb attr_ok (oti_attrs o) = true.
  Proof.
    unfold xoti_ok. intros H. repeat (apply andb_true_iff in H as [H ?]).
    unfold oti_attrs. rewrite !forallb_app. repeat (rewrite opt_attr_ok; [|vm_compute; reflexivity|assumption]).
    reflexivity.
  Qed.

  Lemma file_attrs_ok f : xfile_ok f = true -> forallb attr_ok (file_attrs f) = true.
  Proof.
    unfold xfile_ok. intros H. repeat (apply andb_true_iff in H as [H ?]).
    unfold file_attrs. cbn [forallb]. unfold attr_ok at 1 2. cbn [fst snd].
    change (name_ok (lit "Content-Location")) with true. change (name_ok (lit "TOI")) with true.
    rewrite H. match goal with Ht : str_ok (xf_toi f) = true |- _ => rewrite Ht end. cbn [andb].
    rewrite !forallb_app. rewrite oti_attrs_ok by assumption.
    repeat (rewrite opt_attr_ok; [|vm_compute; reflexivity|assumption]). reflexivity.
  Qed.

  Lemma inst_attrs_ok i : xfdt_ok i = true -> forallb attr_ok (inst_attrs i) = true.
  Proof.
    unfold xfdt_ok. intros H. repeat (apply andb_true_iff in H as [H ?]).
    unfold inst_attrs. cbn [forallb]. unfold attr_ok at 1. cbn [fst snd].
    change (name_ok (lit "Expires")) with true. rewrite H. cbn [andb].
    rewrite !forallb_app. rewrite oti_attrs_ok by assumption.
    repeat (rewrite opt_attr_ok; [|vm_compute; reflexivity|assumption]). reflexivity.
  Qed.

  (* --- token lists: every token acceptable, no adjacent texts *)
  Lemma texts_ok_app a b : texts_ok a = true -> texts_ok b = true -> next_not_text b = true -> texts_ok (a ++ b) = true.
  Proof.
    intros Ha Hb Hn. induction a as [|t a IH]; [exact Hb|]. cbn [app].
    destruct t as [n al e|n|s]; cbn [texts_ok] in *; try (apply IH; exact Ha).
    apply andb_true_iff in Ha as [H1 H2]. rewrite (IH H2), andb_true_r.
    destruct a as [|t2 a]; cbn [app].
    - destruct b as [|[| |] b]; try reflexivity. discriminate.
    - exact H1.
  Qed.

  Lemma toks_ok_app a b : toks_ok a = true -> toks_ok b = true -> next_not_text b = true -> toks_ok (a ++ b) = true.
  Proof.
    unfold toks_ok. intros Ha Hb Hn. apply andb_true_iff in Ha as [A1 A2]. apply andb_true_iff in Hb as [B1 B2].
    rewrite forallb_app, A1, B1. cbn. apply texts_ok_app; assumption.
  Qed.

  Lemma elem_text_ok n t : name_ok (lit n) = true -> str_ok t = true -> toks_ok (elem_text n t) = true.
  Proof.
    intros Hn Ht. unfold elem_text, toks_ok. destruct t as [|c t]; cbn [text_tok app forallb tok_ok texts_ok].
    - rewrite Hn. reflexivity.
    - rewrite Hn, Ht. reflexivity.
  Qed.

  Lemma elem_text_head n t : next_not_text (elem_text n t) = true. Proof. reflexivity. Qed.

  Lemma flat_elem_text_ok n l : name_ok (lit n) = true -> forallb str_ok l = true ->
    toks_ok (flat_map (elem_text n) l) = true.
  Proof.
    intros Hn. induction l as [|t l IH]; intros H; [reflexivity|]. cbn [forallb] in H.
    apply andb_true_iff in H as [Ht Hl]. cbn [flat_map].
    destruct l as [|t2 l].
    - cbn [flat_map]. rewrite app_nil_r. apply elem_text_ok; assumption.
    - apply toks_ok_app; [apply elem_text_ok; assumption|apply IH, Hl|reflexivity].
  Qed.

  Lemma flat_head {A} (f : A -> list token) l : (forall a, next_not_text (f a) = true) ->
    (forall a, f a <> []) -> next_not_text (flat_map f l) = true.
  Proof.
    intros H Hne. destruct l as [|a l]; [reflexivity|]. cbn [flat_map]. specialize (H a). specialize (Hne a).
    destruct (f a) as [|t r]; [congruence|]. exact H.
  Qed.

  Lemma toks_ok_cons t ts : tok_ok t = true -> next_not_text [t] = true -> toks_ok ts = true -> toks_ok (t :: ts) = true.
  Proof.
    unfold toks_ok. intros Ht Hn H. apply andb_true_iff in H as [H1 H2]. cbn [forallb]. rewrite Ht, H1. cbn [andb].
    destruct t; cbn in Hn |- *; try exact H2. discriminate.
  Qed.

  Lemma toks_ok_end n : name_ok n = true -> toks_ok [TEnd n] = true.
  Proof. intros H. unfold toks_ok. cbn. rewrite H. reflexivity. Qed.

  Lemma cache_tokens_ok c : xcache_ok c = true -> toks_ok (cache_tokens c) = true.
  Proof.
    intros H. unfold cache_tokens. apply toks_ok_cons; [reflexivity|reflexivity|].
    apply toks_ok_app; [|apply toks_ok_end; reflexivity|reflexivity].
    destruct c; apply elem_text_ok; try reflexivity; exact H.
  Qed.

  Lemma file_tokens_ok f : xfile_ok f = true -> toks_ok (file_tokens f) = true.
  Proof.
    intros H. pose proof (file_attrs_ok f H) as Ha. pose proof (file_attrs_nodup f) as Hd.
    unfold xfile_ok in H. repeat (apply andb_true_iff in H as [H ?]).
    unfold file_tokens. apply toks_ok_cons; [|reflexivity|].
    - cbn [tok_ok]. rewrite Ha, Hd. reflexivity.
    - apply toks_ok_app.
      + destruct (xf_cache f) as [c|]; [apply cache_tokens_ok; assumption|reflexivity].
      + apply toks_ok_app; [apply flat_elem_text_ok; [reflexivity|assumption]|apply toks_ok_end; reflexivity|reflexivity].
      + destruct (xf_groups f); reflexivity.
  Qed.

  Lemma flat_file_tokens_ok l : forallb xfile_ok l = true -> toks_ok (flat_map file_tokens l) = true.
  Proof.
    induction l as [|f l IH]; intros H; [reflexivity|]. cbn [forallb] in H. apply andb_true_iff in H as [Hf Hl].
    cbn [flat_map]. destruct l as [|f2 l].
    - cbn [flat_map]. rewrite app_nil_r. apply file_tokens_ok, Hf.
    - apply toks_ok_app; [apply file_tokens_ok, Hf|apply IH, Hl|reflexivity].
  Qed.

  Lemma tokens_of_ok i : xfdt_ok i = true -> toks_ok (tokens_of i) = true.
  Proof.
    intros H. pose proof (inst_attrs_ok i H) as Ha. pose proof (inst_attrs_nodup i) as Hd.
    unfold xfdt_ok in H. repeat (apply andb_true_iff in H as [H ?]).
    unfold tokens_of. apply toks_ok_cons; [|reflexivity|].
    - cbn [tok_ok]. rewrite Ha, Hd. reflexivity.
    - apply toks_ok_app; [apply flat_file_tokens_ok; assumption| |].
      + apply toks_ok_app; [apply flat_elem_text_ok; [reflexivity|assumption]|apply toks_ok_end; reflexivity|reflexivity].
      + destruct (xi_groups i); reflexivity.
  Qed.
End Esc.

(* ------------------------------------------------------------------ balance *)
Lemma balanced_elem_text n t st sr rest : st <> [] ->
  balanced st sr (elem_text n t ++ rest) = balanced st sr rest.
Proof.
  intros Hst. destruct st as [|top st]; [congruence|]. unfold elem_text.
  destruct t as [|c t]; cbn [text_tok app balanced]; rewrite str_eqb_refl; reflexivity.
Qed.

Lemma balanced_flat_elem_text n l st sr rest : st <> [] ->
  balanced st sr (flat_map (elem_text n) l ++ rest) = balanced st sr rest.
Proof.
  intros Hst. induction l as [|t l IH]; [reflexivity|]. cbn [flat_map]. rewrite <- app_assoc.
  rewrite balanced_elem_text by exact Hst. exact IH.
Qed.

Lemma balanced_cache c st sr rest : st <> [] ->
  balanced st sr (cache_tokens c ++ rest) = balanced st sr rest.
Proof.
  intros Hst. destruct st as [|top st]; [congruence|]. unfold cache_tokens. cbn [app balanced].
  rewrite <- app_assoc.
  assert (H : forall n t, balanced (lit "mbms2007:Cache-Control" :: top :: st) sr
                (elem_text n t ++ [TEnd (lit "mbms2007:Cache-Control")] ++ rest) = balanced (top :: st) sr rest).
  { intros n t. rewrite balanced_elem_text by discriminate. cbn [app balanced]. rewrite str_eqb_refl. reflexivity. }
  destruct c; apply H.
Qed.

Lemma balanced_file f st sr rest : st <> [] ->
  balanced st sr (file_tokens f ++ rest) = balanced st sr rest.
Proof.
  intros Hst. destruct st as [|top st]; [congruence|]. unfold file_tokens. cbn [app balanced].
  rewrite <- !app_assoc.
  assert (H : balanced (lit "File" :: top :: st) sr
                (flat_map (elem_text "mbms2005:Group") (xf_groups f) ++ [TEnd (lit "File")] ++ rest)
              = balanced (top :: st) sr rest).
  { rewrite balanced_flat_elem_text by discriminate. cbn [app balanced]. rewrite str_eqb_refl. reflexivity. }
  destruct (xf_cache f) as [c|]; [rewrite balanced_cache by discriminate|cbn [app]]; exact H.
Qed.

Lemma balanced_flat_file l st sr rest : st <> [] ->
  balanced st sr (flat_map file_tokens l ++ rest) = balanced st sr rest.
Proof.
  intros Hst. induction l as [|f l IH]; [reflexivity|]. cbn [flat_map]. rewrite <- app_assoc.
  rewrite balanced_file by exact Hst. exact IH.
Qed.

Lemma balanced_tokens_of i : balanced [] false (tokens_of i) = true.
Proof.
  unfold tokens_of. cbn [balanced]. rewrite balanced_flat_file by discriminate.
  rewrite balanced_flat_elem_text by discriminate. cbn [balanced]. rewrite str_eqb_refl. reflexivity.
Qed.

(* ------------------------------------------------------------------ attribute lookup *)
Lemma get_attr_cons w n v r :
  get_attr w ((n, v) :: r) = if str_eqb (local_name n) w then Some v else get_attr w r.
Proof. reflexivity. Qed.

Lemma get_attr_opt w n o r :
  get_attr w (opt_attr n o ++ r) =
  if str_eqb (local_name (lit n)) w then match o with Some v => Some v | None => get_attr w r end
  else get_attr w r.
Proof. destruct o; cbn [opt_attr app]; [rewrite get_attr_cons|]; destruct (str_eqb (local_name (lit n)) w); reflexivity. Qed.

Lemma opt_id (o : option str) : match o with Some v => Some v | None => None end = o.
Proof. destruct o; reflexivity. Qed.

Ltac attr_lookup :=
  unfold attr;
  repeat (first [ rewrite get_attr_cons | rewrite get_attr_opt ];
          match goal with |- context [str_eqb (local_name ?n) ?w] =>
            let b := eval vm_compute in (str_eqb (local_name n) w) in
            change (str_eqb (local_name n) w) with b; cbv iota end);
  cbn [get_attr]; rewrite ?opt_id.

Lemma oti_of_file_attrs f : oti_of_attrs (file_attrs f) = xf_oti f.
Proof.
  unfold oti_of_attrs, file_attrs, oti_attrs. rewrite <- !app_assoc.
  rewrite <- (app_nil_r (opt_attr "mbms2012:File-ETag" (xf_etag f))).
  destruct (xf_oti f) as [a b c d e g]; cbn [xo_id xo_inst xo_b xo_e xo_maxn xo_ssi].
  f_equal; attr_lookup; reflexivity.
Qed.

Lemma file_of_file_attrs f : file_of_attrs (file_attrs f) =
  Some (mk_xfile (xf_loc f) (xf_toi f) (xf_clen f) (xf_tlen f) (xf_ctype f) (xf_cenc f) (xf_md5 f) (xf_oti f)
                 (xf_etag f) None []).
Proof.
  unfold file_of_attrs. rewrite oti_of_file_attrs.
  unfold file_attrs, oti_attrs. rewrite <- !app_assoc.
  rewrite <- (app_nil_r (opt_attr "mbms2012:File-ETag" (xf_etag f))).
  attr_lookup. reflexivity.
Qed.

Lemma inst_of_inst_attrs i :
  attr "Expires" (inst_attrs i) = Some (xi_expires i) /\ attr "Complete" (inst_attrs i) = xi_complete i
  /\ attr "FullFDT" (inst_attrs i) = xi_full i /\ oti_of_attrs (inst_attrs i) = xi_oti i.
Proof.
  unfold oti_of_attrs, inst_attrs, oti_attrs. rewrite <- !app_assoc.
  rewrite <- (app_nil_r (opt_attr "mbms2008:FullFDT" (xi_full i))).
  destruct (xi_oti i) as [a b c d e g]; cbn [xo_id xo_inst xo_b xo_e xo_maxn xo_ssi].
  repeat split; try f_equal; attr_lookup; reflexivity.
Qed.

(* ------------------------------------------------------------------ extraction automaton *)
Lemma xrun_app s a b : xrun s (a ++ b) = match xrun s a with Some s' => xrun s' b | None => None end.
Proof.
  revert s; induction a as [|t a IH]; intros s; cbn [app xrun]; [reflexivity|].
  destruct (xstep s t); [apply IH|reflexivity].
Qed.

Lemma xrun_file_groups i f0 l rest :
  xrun (mk_xst (CFile f0) i) (flat_map (elem_text "mbms2005:Group") l ++ rest)
  = xrun (mk_xst (CFile (mk_xfile (xf_loc f0) (xf_toi f0) (xf_clen f0) (xf_tlen f0) (xf_ctype f0) (xf_cenc f0)
                                  (xf_md5 f0) (xf_oti f0) (xf_etag f0) (xf_cache f0) (xf_groups f0 ++ l))) i) rest.
Proof.
  revert f0; induction l as [|g l IH]; intros f0.
  - cbn [flat_map app]. rewrite app_nil_r. destruct f0; reflexivity.
  - cbn [flat_map]. rewrite <- app_assoc. unfold elem_text at 1.
    destruct g as [|c g]; cbn [text_tok app xrun]; unfold xstep; cbn [x_ctx];
      change (is_el (lit "mbms2005:Group") "Cache-Control") with false;
      change (is_el (lit "mbms2005:Group") "Group") with true; cbv iota; unfold with_ctx; cbn [x_ctx x_inst xrun];
      unfold xstep; cbn [x_ctx x_inst with_ctx app]; rewrite IH; unfold add_fgroup;
      cbn [xf_loc xf_toi xf_clen xf_tlen xf_ctype xf_cenc xf_md5 xf_oti xf_etag xf_cache xf_groups];
      rewrite <- app_assoc; reflexivity.
Qed.

Lemma xrun_cache i f0 c rest : xf_cache f0 = None ->
  xrun (mk_xst (CFile f0) i) (cache_tokens c ++ rest) = xrun (mk_xst (CFile (set_cache f0 c)) i) rest.
Proof.
  intros Hc. unfold cache_tokens. cbn [app xrun]. unfold xstep at 1. cbn [x_ctx].
  change (is_el (lit "mbms2007:Cache-Control") "Cache-Control") with true. cbv iota. rewrite Hc.
  unfold with_ctx. cbn [x_inst].
  destruct c as [t|t|t]; unfold elem_text; destruct t as [|ch t]; cbn [text_tok app xrun]; reflexivity.
Qed.

Lemma xrun_file i f rest :
  xrun (mk_xst CInst i) (file_tokens f ++ rest) = xrun (mk_xst CInst (add_file i f)) rest.
Proof.
  unfold file_tokens. cbn [app xrun]. unfold xstep at 1. cbn [x_ctx].
  change (is_el (lit "File") "File") with true. cbv iota. rewrite file_of_file_attrs.
  unfold with_ctx. cbn [x_inst]. rewrite <- !app_assoc.
  set (f0 := mk_xfile _ _ _ _ _ _ _ _ _ None []).
  assert (Hfin : forall f1, xf_groups f1 = [] ->
            mk_xfile (xf_loc f1) (xf_toi f1) (xf_clen f1) (xf_tlen f1) (xf_ctype f1) (xf_cenc f1) (xf_md5 f1)
                     (xf_oti f1) (xf_etag f1) (xf_cache f1) (xf_groups f1 ++ xf_groups f) = f ->
            xrun (mk_xst (CFile f1) i)
                 (flat_map (elem_text "mbms2005:Group") (xf_groups f) ++ [TEnd (lit "File")] ++ rest)
            = xrun (mk_xst CInst (add_file i f)) rest).
  { intros f1 Hg Hf. rewrite xrun_file_groups. rewrite Hf. reflexivity. }
  destruct (xf_cache f) as [c|] eqn:Ec.
  - rewrite xrun_cache by reflexivity. apply Hfin; [reflexivity|].
    unfold set_cache, f0. cbn. destruct f; cbn in *. subst. reflexivity.
  - cbn [app]. apply Hfin; [reflexivity|]. unfold f0. cbn. destruct f; cbn in *. subst. reflexivity.
Qed.

Lemma xrun_files i l rest :
  xrun (mk_xst CInst i) (flat_map file_tokens l ++ rest)
  = xrun (mk_xst CInst (mk_xfdt (xi_expires i) (xi_complete i) (xi_full i) (xi_oti i) (xi_files i ++ l) (xi_groups i))) rest.
Proof.
  revert i; induction l as [|f l IH]; intros i.
  - cbn [flat_map app]. rewrite app_nil_r. destruct i; reflexivity.
  - cbn [flat_map]. rewrite <- app_assoc, xrun_file, IH. unfold add_file.
    cbn [xi_expires xi_complete xi_full xi_oti xi_files xi_groups]. rewrite <- app_assoc. reflexivity.
Qed.

Lemma xrun_inst_groups i l rest :
  xrun (mk_xst CInst i) (flat_map (elem_text "mbms2005:Group") l ++ rest)
  = xrun (mk_xst CInst (mk_xfdt (xi_expires i) (xi_complete i) (xi_full i) (xi_oti i) (xi_files i) (xi_groups i ++ l))) rest.
Proof.
  revert i; induction l as [|g l IH]; intros i.
  - cbn [flat_map app]. rewrite app_nil_r. destruct i; reflexivity.
  - cbn [flat_map]. rewrite <- app_assoc. unfold elem_text at 1.
    destruct g as [|c g]; cbn [text_tok app xrun]; unfold xstep; cbn [x_ctx];
      change (is_el (lit "mbms2005:Group") "File") with false;
      change (is_el (lit "mbms2005:Group") "Group") with true; cbv iota; unfold with_ctx; cbn [x_ctx x_inst xrun];
      unfold xstep; cbn [x_ctx x_inst with_ctx app]; rewrite IH; unfold add_igroup;
      cbn [xi_expires xi_complete xi_full xi_oti xi_files xi_groups]; rewrite <- app_assoc; reflexivity.
Qed.

Lemma extract_tokens_of i : extract (tokens_of i) = Some i.
Proof.
  unfold extract, tokens_of. cbn [xrun]. unfold xstep at 1. cbn [x_ctx].
  change (is_el (lit "FDT-Instance") "FDT-Instance") with true. cbv iota.
  destruct (inst_of_inst_attrs i) as (E1 & E2 & E3 & E4). rewrite E1, E2, E3, E4.
  rewrite xrun_files, xrun_inst_groups. cbn. destruct i; reflexivity.
Qed.

(* ------------------------------------------------------------------ the round trip *)
Lemma lex_decl f body : lex (S f) (xml_decl ++ body) = lex f body.
Proof. reflexivity. Qed.

Theorem xml_roundtrip_with esc okc : esc_ok esc okc ->
  forall i, xfdt_ok okc i = true -> parse_fdt (print_fdt_with esc i) = Some i.
Proof.
  intros EO i Hi. pose proof (tokens_of_ok okc i Hi) as Hok.
  assert (Hall : forallb (tok_ok okc) (tokens_of i) = true).
  { unfold toks_ok in Hok. apply andb_true_iff in Hok as [H _]. exact H. }
  unfold parse_fdt, tokens_of_doc, print_fdt_with.
  rewrite norm_eol_id.
  2:{ rewrite no_cr_app. rewrite (print_tokens_no_cr esc okc EO _ Hall). reflexivity. }
  rewrite app_length. change (List.length xml_decl) with 38%nat.
  change (S (38 + List.length (print_tokens esc (tokens_of i))))
    with (S (S (37 + List.length (print_tokens esc (tokens_of i))))).
  rewrite lex_decl.
  rewrite (lex_print esc okc EO _ _ Hok).
  2:{ pose proof (print_tokens_len esc okc EO _ Hall). lia. }
  rewrite balanced_tokens_of. apply extract_tokens_of.
Qed.

Lemma xfdt_ok_true i : xfdt_ok (fun _ => true) i = true.
Proof.
  assert (S : forall s, str_ok (fun _ => true) s = true) by (intros s; induction s; cbn; auto).
  assert (O : forall o, ostr_ok (fun _ => true) o = true) by (intros [s|]; cbn; auto).
  assert (L : forall l, forallb (str_ok (fun _ => true)) l = true) by (intros l; induction l; cbn; rewrite ?S; auto).
  assert (X : forall o, xoti_ok (fun _ => true) o = true) by (intros o; unfold xoti_ok; rewrite !O; reflexivity).
  assert (F : forall f, xfile_ok (fun _ => true) f = true).
  { intros f. unfold xfile_ok. rewrite !S, !O, X, L. destruct (xf_cache f) as [[t|t|t]|]; cbn; rewrite ?S; reflexivity. }
  unfold xfdt_ok. rewrite S, !O, X, L. cbn. rewrite andb_true_r. induction (xi_files i); cbn; rewrite ?F; auto.
Qed.

(* every abstract instance, whatever bytes its strings contain *)
Theorem xml_roundtrip : forall x, parse_fdt (print_fdt x) = Some x.
Proof. intros x. apply (xml_roundtrip_with esc_ref _ esc_ref_ok). apply xfdt_ok_true. Qed.

(* the escaping flute uses: faithful exactly on strings without control bytes *)
Theorem xml_roundtrip_raw : forall x, xfdt_ok printable x = true -> parse_fdt (print_fdt_with esc_raw x) = Some x.
Proof. apply (xml_roundtrip_with esc_raw _ esc_raw_ok). Qed.
