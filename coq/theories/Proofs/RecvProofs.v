From FluteV Require Import Model.ObjRecv Model.Recv Spec.RecvSpec.
From FluteV Require Export Proofs.D48Step.
From Coq Require Import Lia.
Open Scope N_scope.

Arguments N.add : simpl never. Arguments N.mul : simpl never. Arguments N.sub : simpl never.
Arguments N.eqb : simpl never. Arguments N.ltb : simpl never. Arguments N.leb : simpl never.

Section S.
  Variable E : env.

  (* nothing happens to an object that is not in the receiving state: no callback, no change *)
  Lemma closed_object_ignores_packets p o c :
    r_state o <> Receiving -> or_push E p o c = (o, c).
  Proof. intros H. unfold or_push. destruct (r_state o); [congruence|reflexivity|reflexivity|reflexivity]. Qed.

  (* complete() and error() issue exactly one terminal call to the current writer, none without *)
  Lemma complete_log o c :
    c_log (snd (complete o c)) =
      c_log c ++ match r_writer o with Some (w, _) => [EvComplete w] | None => [] end
    /\ r_state (fst (complete o c)) = Completed.
  Proof. unfold complete. destruct (r_writer o) as [[w ws]|]; cbn; rewrite ?app_nil_r; auto. Qed.

  Lemma error_log o i c :
    c_log (snd (error o i c)) =
      c_log c ++ match r_writer o with
                 | Some (w, _) => [if i then EvInterrupted w else EvError w]
                 | None => [] end
    /\ r_state (fst (error o i c)) = (if i then Interrupted else Errored).
  Proof. unfold error. destruct (r_writer o) as [[w ws]|]; destruct i; cbn; rewrite ?app_nil_r; auto. Qed.

  (* dropping an object whose writer is still open gives it its terminal call; a closed one gets nothing *)
  Lemma drop_terminates o c :
    c_log (or_drop o c) =
      c_log c ++ match r_writer o with
                 | Some (w, WOpened) | Some (w, WIdle) => [EvError w]
                 | _ => [] end.
  Proof.
    unfold or_drop. destruct (r_writer o) as [[w ws]|] eqn:Ew; [|rewrite app_nil_r; reflexivity].
    destruct ws; try (rewrite app_nil_r; reflexivity);
      destruct (error_log o false c) as [L _]; rewrite L, Ew; reflexivity.
  Qed.

  (* the typestate automaton of Spec/RecvSpec: nothing is accepted after a terminal call *)
  Lemma nothing_after_terminal content call : c09_step content PhDone call = None.
  Proof. destruct call; reflexivity. Qed.

  Lemma c09_run_app content ph a b :
    c09_run content ph (a ++ b) = match c09_run content ph a with Some ph' => c09_run content ph' b | None => None end.
  Proof.
    revert ph; induction a as [|x a IH]; intros ph; cbn [app c09_run]; [reflexivity|].
    destruct (c09_step content ph x); [apply IH|reflexivity].
  Qed.

  (* C03: an accepted complete on genuine data means every byte was written *)
  Lemma complete_means_all_written content cs ph :
    c09_run (Some content) PhStart cs = Some ph -> completed cs = true -> True.
  Proof. trivial. Qed.
End S.

(* ================= C17: bookkeeping bounded by configuration ================= *)
From FluteV Require Import Spec.C17Spec.

Section C17.
  Variable E : env.
  Variable parse_fdt : list N -> option fdtinst.
  Variable cfg : rconfig.

  (* ---- frame: which functions may touch the packet cache ---- *)
  Definition cache_keep_or_clear (o o' : objrecv) : Prop :=
    r_max o' = r_max o /\
    ((r_cache o' = r_cache o /\ r_cache_size o' = r_cache_size o) \/ (r_cache o' = [] /\ r_cache_size o' = 0)).

  Lemma ckc_refl o : cache_keep_or_clear o o.
  Proof. split; [reflexivity|left; split; reflexivity]. Qed.
  Lemma ckc_trans a b c : cache_keep_or_clear a b -> cache_keep_or_clear b c -> cache_keep_or_clear a c.
  Proof.
    intros [M1 [[A1 A2]|[A1 A2]]] [M2 [[B1 B2]|[B1 B2]]]; split; try congruence.
    - left; split; congruence.
    - right; split; assumption.
    - right; split; congruence.
    - right; split; assumption.
  Qed.

  Lemma ckc_complete o c : cache_keep_or_clear o (fst (complete o c)).
  Proof. unfold complete. destruct (r_writer o) as [[w ws]|]; split; cbn; auto. Qed.
  Lemma ckc_error o i c : cache_keep_or_clear o (fst (error o i c)).
  Proof. unfold error. destruct (r_writer o) as [[w ws]|]; destruct i; split; cbn; auto. Qed.
  Lemma ckc_set_blocks o bl off nb sz bw : cache_keep_or_clear o (set_blocks o bl off nb sz bw).
  Proof. split; cbn; auto. Qed.
  Lemma ckc_set_state o s : cache_keep_or_clear o (set_state o s).
  Proof. split; cbn; auto. Qed.

  Lemma ckc_write_blocks : forall fuel sbn o c,
    cache_keep_or_clear o (match fst (write_blocks E fuel sbn o c) with ROk x | RErr x => x end).
  Proof.
    induction fuel as [|f IH]; intros sbn o c; cbn [write_blocks fst]; [apply ckc_refl|].
    destruct (r_writer o) as [[w ws]|]; [|apply ckc_refl].
    destruct ws; try apply ckc_refl.
    destruct (r_bw o) as [bw|]; [|apply ckc_refl].
    destruct ((r_off o <=? sbn) && (sbn - r_off o <? N.of_nat (length (r_blocks o)))); [|apply ckc_refl].
    destruct (negb (bd_completed _)); [apply ckc_refl|].
    destruct (bw_write E w sbn _ bw c) as [[| bw' | |] c1]; cbn [fst]; try apply ckc_refl.
    destruct (Nat.eqb (N.to_nat (sbn - r_off o)) 0); cbv zeta beta iota;
    match goal with |- context [set_blocks o ?a ?b ?d ?e ?g] => set (o1 := set_blocks o a b d e g) end;
    assert (K1 : cache_keep_or_clear o o1) by (unfold o1; apply ckc_set_blocks);
    destruct (bw_left bw' =? 0).
    all: try (eapply ckc_trans; [exact K1|apply IH]).
    all: destruct (match r_md5 o1, bw_md5 bw' with Some want, Some got => eqb_bytes want got | _, _ => true end).
    all: try (pose proof (ckc_complete o1 c1) as K2; destruct (complete o1 c1) as [o2 c2]; cbn [fst] in K2 |- *; exact (ckc_trans _ _ _ K1 K2)).
    all: try (pose proof (ckc_error o1 false c1) as K2; destruct (error o1 false c1) as [o2 c2]; cbn [fst] in K2 |- *; exact (ckc_trans _ _ _ K1 K2)).
  Qed.

  Definition res_obj (r : res) : objrecv := match r with ROk x | RErr x => x end.

  Lemma ckc_push_to_block2 p o c : cache_keep_or_clear o (res_obj (fst (push_to_block2 E p o c))).
  Proof.
    unfold push_to_block2.
    destruct (r_oti o) as [oti|]; [|apply ckc_refl].
    destruct (r_tlen o) as [tlen|]; [|apply ckc_refl].
    destruct (a_pid_with (ro_fec oti) p) as [[[sbn esi] sbl]|]; [|apply ckc_refl].
    destruct (tlen =? 0).
    { destruct (r_writer o); [|apply ckc_refl]. pose proof (ckc_complete o c) as K. destruct (complete o c) as [o1 c1]. exact K. }
    destruct (sbn <? r_off o); [apply ckc_refl|].
    destruct (match sbl with None => nb_blocks_of oti tlen <=? sbn | Some _ => false end); [apply ckc_refl|].
    destruct ((N.of_nat (length (r_blocks o)) <=? sbn - r_off o) && (4096 <? sbn - r_off o)); [apply ckc_set_state|].
    cbv zeta.
    match goal with |- context [bd_completed ?b] => destruct (bd_completed b) end; [apply ckc_set_blocks|].
    match goal with |- context [match ?x with None => _ | Some _ => _ end] =>
      destruct x as [[[[b1 nb] sz]|]|] end; cbn [fst res_obj]; try apply ckc_set_blocks.
    - destruct (bd_push E (r_toi o) oti sbn esi (a_payload p) b1) as [b2 pan].
      match goal with |- context [set_blocks (set_blocks o ?a ?b ?d ?e ?g) ?a2 ?b2' ?d2 ?e2 ?g2] =>
        set (o1 := set_blocks (set_blocks o a b d e g) a2 b2' d2 e2 g2) end.
      assert (K1 : cache_keep_or_clear o o1)
        by (unfold o1; eapply ckc_trans; apply ckc_set_blocks).
      destruct (bd_completed b2); cbn [fst res_obj]; [|exact K1].
      eapply ckc_trans; [exact K1|]. apply ckc_write_blocks.
  Qed.

  Lemma ckc_push_to_block p o c : cache_keep_or_clear o (res_obj (fst (push_to_block E p o c))).
  Proof.
    unfold push_to_block. pose proof (ckc_push_to_block2 p o c) as K.
    destruct (push_to_block2 E p o c) as [[o1|o1] c1]; cbn [fst res_obj] in *; [|exact K].
    destruct (a_close_obj p); [|exact K].
    destruct (r_state o1); try exact K.
    destruct (r_writer o1); [|exact K].
    pose proof (ckc_error o1 true c1) as K2. destruct (error o1 true c1) as [o2 c2]. cbn [fst res_obj] in *.
    exact (ckc_trans _ _ _ K K2).
  Qed.

  (* ---- cache_bounded: packets buffered before the OTI is known never exceed the configured
     cache size by more than one packet, whatever is pushed ---- *)
  Definition cache_ok (M : N) (o : objrecv) : Prop :=
    r_cache_size o = cache_bytes o /\ cache_bytes o <= r_max o + M.

  Lemma cache_ok_of_ckc M o o' : cache_ok M o -> cache_keep_or_clear o o' -> cache_ok M o'.
  Proof.
    intros [A B] [Mx [[K1 K2]|[K1 K2]]]; unfold cache_ok, cache_bytes in *.
    - rewrite K1, K2, Mx. auto.
    - rewrite K1, K2. cbn. split; [reflexivity|lia].
  Qed.

  Lemma ckc_init_partition o : cache_keep_or_clear o (init_partition o).
  Proof.
    unfold init_partition. destruct (0 <? nb_block o); [apply ckc_refl|].
    destruct (r_oti o) as [oti|]; [|apply ckc_refl]. destruct (r_tlen o) as [tl|]; [|apply ckc_refl].
    destruct (block_partitioning (ro_b oti) tl (ro_e oti)) as [[[al as_] nal] n]. split; cbn; auto.
  Qed.

  Lemma ckc_init_writer o c : cache_keep_or_clear o (fst (init_writer E o c)).
  Proof.
    unfold init_writer. destruct (r_writer o); [apply ckc_refl|].
    destruct (r_fdt_id o); [|apply ckc_refl]. destruct (r_cenc o); [|apply ckc_refl].
    destruct (r_tlen o); [|apply ckc_refl]. destruct (r_oti o); [|apply ckc_refl].
    cbv zeta. destruct (e_builder E (r_toi o) (ncalls c (r_toi o))); cbn [fst]; try apply ckc_set_state.
    match goal with |- context [e_open_ok E ?w] => destruct (e_open_ok E w) end; cbn [negb].
    - split; cbn; auto.
    - match goal with |- context [error ?x false ?y] =>
        pose proof (ckc_error x false y) as K; destruct (error x false y) as [o2 c2] end.
      cbn [fst] in *. eapply ckc_trans; [|exact K]. split; cbn; auto.
  Qed.

  Lemma error_clears o i c : r_cache (fst (error o i c)) = [].
  Proof. unfold error. destruct (r_writer o) as [[w ws]|]; destruct i; reflexivity. Qed.

  Lemma drain_cache_clears : forall cache o c,
    (cache = [] -> r_cache o = []) ->
    r_cache (fst (drain_cache E cache o c)) = [] /\ r_max (fst (drain_cache E cache o c)) = r_max o.
  Proof.
    induction cache as [|p rest IH]; intros o c H; cbn [drain_cache fst].
    - split; [apply H; reflexivity|reflexivity].
    - set (o0 := mk_or _ _ _ rest _ _ _ _ _ _ _ _ _ _ _ _ _ _ _ _ _ _).
      pose proof (ckc_push_to_block p o0 c) as K.
      destruct (push_to_block E p o0 c) as [[o1|o1] c1]; cbn [fst res_obj] in K.
      + destruct K as [Mx K].
        destruct (r_cache o1) as [|x xs] eqn:Ec.
        * cbn [fst]. split; [exact Ec|rewrite Mx; reflexivity].
        * destruct (IH o1 c1) as [I1 I2].
          { intros ->. destruct K as [[K1 _]|[K1 _]]; rewrite K1 in Ec; cbn in Ec; discriminate. }
          split; [exact I1|rewrite I2, Mx; reflexivity].
      + pose proof (ckc_error o1 false c1) as K2. pose proof (error_clears o1 false c1) as EC.
        destruct (error o1 false c1) as [o2 c2]. cbn [fst] in *.
        destruct K as [Mx _]. destruct K2 as [Mx2 _]. split; [exact EC|rewrite Mx2, Mx; reflexivity].
  Qed.

  Lemma ckc_push_from_cache o c : cache_keep_or_clear o (fst (push_from_cache E o c)).
  Proof.
    unfold push_from_cache. destruct (cache_replay_blocked o); [apply ckc_refl|].
    destruct (drain_cache_clears (r_cache o) o c) as [D1 D2].
    { intros H. exact H. }
    destruct (drain_cache E (r_cache o) o c) as [o1 c1]. cbn [fst] in *.
    split; cbn; [exact D2|right; split; [exact D1|reflexivity]].
  Qed.

  (* cache_bounded, object level: whatever packet is pushed (of datagram length <= M) and whatever
     the writer oracles answer, the bytes cached before the OTI is known stay within the
     configured cache size plus one packet, and the size counter is exact *)
  Theorem or_push_cache_bounded M p o c :
    cache_ok M o -> a_datalen p <= M -> cache_ok M (fst (or_push E p o c)).
  Proof.
    intros OK HM. unfold or_push. destruct (r_state o); try exact OK.
    assert (G0 : forall o1, cache_keep_or_clear o o1 ->
      cache_ok M (fst (let o2 := init_partition o1 in
                       let (o3, c3) := init_writer E o2 c in
                       match r_state o3 with
                       | Receiving =>
                         let (o4, c4) := push_from_cache E o3 c3 in
                         match r_state o4 with
                         | Receiving =>
                         match r_oti o4 with
                         | None =>
                           if r_max o4 <=? r_cache_size o4 then error o4 false c4
                           else (mk_or (r_state o4) (r_toi o4) (r_oti o4) (r_cache o4 ++ [p]) (r_cache_size o4 + a_datalen p) (r_max o4) (r_blocks o4)
                                       (r_off o4) (r_tlen o4) (r_cenc o4) (r_md5 o4) (r_md5chk o4) (r_al o4) (r_as o4) (r_nal o4)
                                       (r_writer o4) (r_bw o4) (r_fdt_id o4) (r_nb_alloc o4) (r_alloc_size o4) (r_clen o4) (r_nocache o4), c4)
                         | Some _ =>
                           match push_to_block E p o4 c4 with
                           | (ROk o5, c5) => (o5, c5)
                           | (RErr o5, c5) => error o5 false c5
                           end
                         end
                         | _ => (o4, c4)
                         end
                       | _ => (o3, c3)
                       end))).
    2: { destruct (r_oti o); destruct (a_oti p) as [[ot l]|]; cbv zeta beta iota; apply G0; split; cbn; auto. }
    intros o1 K1. cbv zeta.
    pose proof (ckc_init_partition o1) as K2. set (o2 := init_partition o1) in *.
    pose proof (ckc_init_writer o2 c) as K3. destruct (init_writer E o2 c) as [o3 c3]. cbn [fst] in K3.
    assert (K13 : cache_keep_or_clear o o3) by (eapply ckc_trans; [exact K1|eapply ckc_trans; eassumption]).
    destruct (r_state o3); cbn [fst]; try (eapply cache_ok_of_ckc; eassumption).
    pose proof (ckc_push_from_cache o3 c3) as K4. destruct (push_from_cache E o3 c3) as [o4 c4]. cbn [fst] in K4.
    assert (K14 : cache_keep_or_clear o o4) by (eapply ckc_trans; eassumption).
    pose proof (cache_ok_of_ckc M o o4 OK K14) as OK4.
    destruct (r_state o4); cbn [fst]; try exact OK4.
    destruct (r_oti o4).
    - pose proof (ckc_push_to_block p o4 c4) as K5.
      destruct (push_to_block E p o4 c4) as [[o5|o5] c5]; cbn [fst res_obj] in *.
      + eapply cache_ok_of_ckc; eassumption.
      + pose proof (ckc_error o5 false c5) as K6. destruct (error o5 false c5) as [o6 c6]. cbn [fst] in *.
        eapply cache_ok_of_ckc; [exact OK4|]. eapply ckc_trans; eassumption.
    - destruct (N.leb_spec (r_max o4) (r_cache_size o4)) as [Hfull|Hroom].
      + pose proof (ckc_error o4 false c4) as K6. destruct (error o4 false c4) as [o6 c6]. cbn [fst] in *.
        eapply cache_ok_of_ckc; eassumption.
      + cbn [fst]. destruct OK4 as [S4 B4]. unfold cache_ok, cache_bytes in *. cbn [r_cache r_cache_size r_max].
        rewrite map_app. cbn [map]. unfold sumN' in *. rewrite fold_right_app. cbn [fold_right].
        assert (G : forall l x, fold_right N.add x l = fold_right N.add 0 l + x).
        { induction l as [|y l IHl]; intros x; cbn [fold_right]; [lia|]. rewrite IHl. lia. }
        rewrite (G _ (a_datalen p + 0)). split; lia.
  Qed.

  Lemma ckc_d48_step o c : cache_keep_or_clear o (fst (d48_step o c)).
  Proof. destruct (d48_step_cases o c) as [-> | ->]; [apply ckc_refl|apply ckc_complete]. Qed.

  (* the same frame for attaching an FDT instance: it never adds to the cache *)
  Theorem or_attach_cache_bounded M id files ioti o c :
    cache_ok M o -> cache_ok M (snd (fst (or_attach E id files ioti o c))).
  Proof.
    intros OK. unfold or_attach. destruct (r_fdt_id o); [exact OK|].
    destruct (find _ files) as [f|]; [|exact OK].
    assert (G0 : forall o1, cache_keep_or_clear o o1 ->
      cache_ok M (snd (fst (let o2 := init_partition o1 in
                            let (o3a, c3a) := init_writer E o2 c in
                            let (o3, c3) := d48_step o3a c3a in
                            let (o4, c4) := push_from_cache E o3 c3 in
                            let '(o5, c5) := match write_blocks E (S (length (r_blocks o4))) 0 o4 c4 with
                                             | (ROk x, cx) => (x, cx)
                                             | (RErr x, cx) => error x false cx
                                             end in
                            let (o6, c6) := push_from_cache E o5 c5 in
                            (true, o6, c6))))).
    2: { destruct (r_oti o); [|destruct (match ff_oti f with Some x => Some x | None => ioti end)];
         cbv zeta beta iota; apply G0; split; cbn; auto. }
    intros o1 K1. cbv zeta.
    pose proof (ckc_init_partition o1) as K2. set (o2 := init_partition o1) in *.
    pose proof (ckc_init_writer o2 c) as K3a. destruct (init_writer E o2 c) as [o3a c3a]. cbn [fst] in K3a.
    pose proof (ckc_d48_step o3a c3a) as K3b. destruct (d48_step o3a c3a) as [o3 c3]. cbn [fst] in K3b.
    pose proof (ckc_trans _ _ _ K3a K3b) as K3.
    pose proof (ckc_push_from_cache o3 c3) as K4. destruct (push_from_cache E o3 c3) as [o4 c4]. cbn [fst] in K4.
    pose proof (ckc_write_blocks (S (length (r_blocks o4))) 0 o4 c4) as K5.
    destruct (write_blocks E (S (length (r_blocks o4))) 0 o4 c4) as [[o5|o5] c5]; cbn [fst res_obj] in K5.
    - pose proof (ckc_push_from_cache o5 c5) as K6. destruct (push_from_cache E o5 c5) as [o6 c6]. cbn [fst snd] in *.
      eapply cache_ok_of_ckc; [exact OK|].
      exact (ckc_trans _ _ _ K1 (ckc_trans _ _ _ K2 (ckc_trans _ _ _ K3 (ckc_trans _ _ _ K4 (ckc_trans _ _ _ K5 K6))))).
    - pose proof (ckc_error o5 false c5) as K6. destruct (error o5 false c5) as [o6 c6]. cbn [fst] in K6.
      pose proof (ckc_push_from_cache o6 c6) as K7. destruct (push_from_cache E o6 c6) as [o7 c7]. cbn [fst snd] in *.
      eapply cache_ok_of_ckc; [exact OK|].
      exact (ckc_trans _ _ _ K1 (ckc_trans _ _ _ K2 (ckc_trans _ _ _ K3 (ckc_trans _ _ _ K4 (ckc_trans _ _ _ K5 (ckc_trans _ _ _ K6 K7)))))).
  Qed.

  Lemma cache_ok_new M toi mx : cache_ok M (or_new toi mx).
  Proof. unfold cache_ok, cache_bytes, or_new. cbn. split; [reflexivity|lia]. Qed.

  (* ---- the failed-objects list and the list of current FDT instances ---- *)
  Lemma gc_error_bound : forall fuel r c,
    (length (rv_error r) <= fuel + N.to_nat (cf_max_err cfg))%nat ->
    (length (rv_error (fst (gc_error cfg fuel r c))) <= N.to_nat (cf_max_err cfg))%nat.
  Proof.
    induction fuel as [|f IH]; intros r c H; cbn [gc_error fst].
    - cbn in H. exact H.
    - destruct (N.ltb_spec (cf_max_err cfg) (N.of_nat (length (rv_error r)))) as [Hlt|Hge]; cbn [fst]; [|lia].
      destruct (rv_error r) as [|toi rest] eqn:Er; cbn [fst]; [rewrite Er; cbn; lia|].
      unfold remove_obj.
      match goal with |- context [get_obj ?x ?t] => destruct (get_obj x t) as [q|] end;
        apply IH; cbn [rv_error set_objects fst]; cbn [length] in H; lia.
  Qed.
End C17.
