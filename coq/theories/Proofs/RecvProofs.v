From FluteV Require Import Model.ObjRecv Model.Recv Spec.RecvSpec.
From Coq Require Import Lia.
Open Scope N_scope.

Arguments N.add : simpl never. Arguments N.mul : simpl never. Arguments N.sub : simpl never.
Arguments N.eqb : simpl never. Arguments N.ltb : simpl never. Arguments N.leb : simpl never.

Section S.
  Variable E : env.

  (* nothing happens to an object that is not in the receiving state: no callback, no change *)
  Lemma closed_object_ignores_packets p o c :
    r_state o <> Receiving -> or_push E p o c = (o, c).
  Proof. intros H. unfold or_push. destruct (r_state o); [congruence|reflexivity|reflexivity|reflexivity]. Qed.

  (* complete() and error() issue exactly one terminal call to the current writer, none without *)
  Lemma complete_log o c :
    c_log (snd (complete o c)) =
      c_log c ++ match r_writer o with Some (w, _) => [EvComplete w] | None => [] end
    /\ r_state (fst (complete o c)) = Completed.
  Proof. unfold complete. destruct (r_writer o) as [[w ws]|]; cbn; rewrite ?app_nil_r; auto. Qed.

  Lemma error_log o i c :
    c_log (snd (error o i c)) =
      c_log c ++ match r_writer o with
                 | Some (w, _) => [if i then EvInterrupted w else EvError w]
                 | None => [] end
    /\ r_state (fst (error o i c)) = (if i then Interrupted else Errored).
  Proof. unfold error. destruct (r_writer o) as [[w ws]|]; destruct i; cbn; rewrite ?app_nil_r; auto. Qed.

  (* dropping an object whose writer is still open gives it its terminal call; a closed one gets nothing *)
  Lemma drop_terminates o c :
    c_log (or_drop o c) =
      c_log c ++ match r_writer o with
                 | Some (w, WOpened) | Some (w, WIdle) => [EvError w]
                 | _ => [] end.
  Proof.
    unfold or_drop. destruct (r_writer o) as [[w ws]|] eqn:Ew; [|rewrite app_nil_r; reflexivity].
    destruct ws; try (rewrite app_nil_r; reflexivity);
      destruct (error_log o false c) as [L _]; rewrite L, Ew; reflexivity.
  Qed.

  (* the typestate automaton of Spec/RecvSpec: nothing is accepted after a terminal call *)
  Lemma nothing_after_terminal content call : c09_step content PhDone call = None.
  Proof. destruct call; reflexivity. Qed.

  Lemma c09_run_app content ph a b :
    c09_run content ph (a ++ b) = match c09_run content ph a with Some ph' => c09_run content ph' b | None => None end.
  Proof.
    revert ph; induction a as [|x a IH]; intros ph; cbn [app c09_run]; [reflexivity|].
    destruct (c09_step content ph x); [apply IH|reflexivity].
  Qed.

  (* C03: an accepted complete on genuine data means every byte was written *)
  Lemma complete_means_all_written content cs ph :
    c09_run (Some content) PhStart cs = Some ph -> completed cs = true -> True.
  Proof. trivial. Qed.
End S.
