
type nat =
| O
| S of nat

(** val fst : ('a1 * 'a2) -> 'a1 **)

let fst = function
| (x, _) -> x

(** val snd : ('a1 * 'a2) -> 'a2 **)

let snd = function
| (_, y) -> y

type comparison =
| Eq
| Lt
| Gt

type positive =
| XI of positive
| XO of positive
| XH

type n =
| N0
| Npos of positive

module Pos =
 struct
  type mask =
  | IsNul
  | IsPos of positive
  | IsNeg
 end

module Coq_Pos =
 struct
  (** val succ : positive -> positive **)

  let rec succ = function
  | XI p -> XO (succ p)
  | XO p -> XI p
  | XH -> XO XH

  (** val add : positive -> positive -> positive **)

  let rec add x y =
    match x with
    | XI p ->
      (match y with
       | XI q -> XO (add_carry p q)
       | XO q -> XI (add p q)
       | XH -> XO (succ p))
    | XO p ->
      (match y with
       | XI q -> XI (add p q)
       | XO q -> XO (add p q)
       | XH -> XI p)
    | XH -> (match y with
             | XI q -> XO (succ q)
             | XO q -> XI q
             | XH -> XO XH)

  (** val add_carry : positive -> positive -> positive **)

  and add_carry x y =
    match x with
    | XI p ->
      (match y with
       | XI q -> XI (add_carry p q)
       | XO q -> XO (add_carry p q)
       | XH -> XI (succ p))
    | XO p ->
      (match y with
       | XI q -> XO (add_carry p q)
       | XO q -> XI (add p q)
       | XH -> XO (succ p))
    | XH ->
      (match y with
       | XI q -> XI (succ q)
       | XO q -> XO (succ q)
       | XH -> XI XH)

  (** val pred_double : positive -> positive **)

  let rec pred_double = function
  | XI p -> XI (XO p)
  | XO p -> XI (pred_double p)
  | XH -> XH

  type mask = Pos.mask =
  | IsNul
  | IsPos of positive
  | IsNeg

  (** val succ_double_mask : mask -> mask **)

  let succ_double_mask = function
  | IsNul -> IsPos XH
  | IsPos p -> IsPos (XI p)
  | IsNeg -> IsNeg

  (** val double_mask : mask -> mask **)

  let double_mask = function
  | IsPos p -> IsPos (XO p)
  | x0 -> x0

  (** val double_pred_mask : positive -> mask **)

  let double_pred_mask = function
  | XI p -> IsPos (XO (XO p))
  | XO p -> IsPos (XO (pred_double p))
  | XH -> IsNul

  (** val sub_mask : positive -> positive -> mask **)

  let rec sub_mask x y =
    match x with
    | XI p ->
      (match y with
       | XI q -> double_mask (sub_mask p q)
       | XO q -> succ_double_mask (sub_mask p q)
       | XH -> IsPos (XO p))
    | XO p ->
      (match y with
       | XI q -> succ_double_mask (sub_mask_carry p q)
       | XO q -> double_mask (sub_mask p q)
       | XH -> IsPos (pred_double p))
    | XH -> (match y with
             | XH -> IsNul
             | _ -> IsNeg)

  (** val sub_mask_carry : positive -> positive -> mask **)

  and sub_mask_carry x y =
    match x with
    | XI p ->
      (match y with
       | XI q -> succ_double_mask (sub_mask_carry p q)
       | XO q -> double_mask (sub_mask p q)
       | XH -> IsPos (pred_double p))
    | XO p ->
      (match y with
       | XI q -> double_mask (sub_mask_carry p q)
       | XO q -> succ_double_mask (sub_mask_carry p q)
       | XH -> double_pred_mask p)
    | XH -> IsNeg

  (** val mul : positive -> positive -> positive **)

  let rec mul x y =
    match x with
    | XI p -> add y (XO (mul p y))
    | XO p -> XO (mul p y)
    | XH -> y

  (** val compare_cont : comparison -> positive -> positive -> comparison **)

  let rec compare_cont r x y =
    match x with
    | XI p ->
      (match y with
       | XI q -> compare_cont r p q
       | XO q -> compare_cont Gt p q
       | XH -> Gt)
    | XO p ->
      (match y with
       | XI q -> compare_cont Lt p q
       | XO q -> compare_cont r p q
       | XH -> Gt)
    | XH -> (match y with
             | XH -> r
             | _ -> Lt)

  (** val compare : positive -> positive -> comparison **)

  let compare =
    compare_cont Eq

  (** val eqb : positive -> positive -> bool **)

  let rec eqb p q =
    match p with
    | XI p0 -> (match q with
                | XI q0 -> eqb p0 q0
                | _ -> false)
    | XO p0 -> (match q with
                | XO q0 -> eqb p0 q0
                | _ -> false)
    | XH -> (match q with
             | XH -> true
             | _ -> false)
 end

module N =
 struct
  (** val succ_double : n -> n **)

  let succ_double = function
  | N0 -> Npos XH
  | Npos p -> Npos (XI p)

  (** val double : n -> n **)

  let double = function
  | N0 -> N0
  | Npos p -> Npos (XO p)

  (** val add : n -> n -> n **)

  let add n0 m =
    match n0 with
    | N0 -> m
    | Npos p -> (match m with
                 | N0 -> n0
                 | Npos q -> Npos (Coq_Pos.add p q))

  (** val sub : n -> n -> n **)

  let sub n0 m =
    match n0 with
    | N0 -> N0
    | Npos n' ->
      (match m with
       | N0 -> n0
       | Npos m' ->
         (match Coq_Pos.sub_mask n' m' with
          | Coq_Pos.IsPos p -> Npos p
          | _ -> N0))

  (** val mul : n -> n -> n **)

  let mul n0 m =
    match n0 with
    | N0 -> N0
    | Npos p -> (match m with
                 | N0 -> N0
                 | Npos q -> Npos (Coq_Pos.mul p q))

  (** val compare : n -> n -> comparison **)

  let compare n0 m =
    match n0 with
    | N0 -> (match m with
             | N0 -> Eq
             | Npos _ -> Lt)
    | Npos n' -> (match m with
                  | N0 -> Gt
                  | Npos m' -> Coq_Pos.compare n' m')

  (** val eqb : n -> n -> bool **)

  let eqb n0 m =
    match n0 with
    | N0 -> (match m with
             | N0 -> true
             | Npos _ -> false)
    | Npos p -> (match m with
                 | N0 -> false
                 | Npos q -> Coq_Pos.eqb p q)

  (** val leb : n -> n -> bool **)

  let leb x y =
    match compare x y with
    | Gt -> false
    | _ -> true

  (** val ltb : n -> n -> bool **)

  let ltb x y =
    match compare x y with
    | Lt -> true
    | _ -> false

  (** val pos_div_eucl : positive -> n -> n * n **)

  let rec pos_div_eucl a b =
    match a with
    | XI a' ->
      let (q, r) = pos_div_eucl a' b in
      let r' = succ_double r in
      if leb b r' then ((succ_double q), (sub r' b)) else ((double q), r')
    | XO a' ->
      let (q, r) = pos_div_eucl a' b in
      let r' = double r in
      if leb b r' then ((succ_double q), (sub r' b)) else ((double q), r')
    | XH ->
      (match b with
       | N0 -> (N0, (Npos XH))
       | Npos p -> (match p with
                    | XH -> ((Npos XH), N0)
                    | _ -> (N0, (Npos XH))))

  (** val div_eucl : n -> n -> n * n **)

  let div_eucl a b =
    match a with
    | N0 -> (N0, N0)
    | Npos na -> (match b with
                  | N0 -> (N0, a)
                  | Npos _ -> pos_div_eucl na b)

  (** val div : n -> n -> n **)

  let div a b =
    fst (div_eucl a b)

  (** val modulo : n -> n -> n **)

  let modulo a b =
    snd (div_eucl a b)
 end

(** val div_ceil : n -> n -> n **)

let div_ceil a b =
  if N.eqb (N.modulo a b) N0 then N.div a b else N.add (N.div a b) (Npos XH)

(** val div_floor : n -> n -> n **)

let div_floor =
  N.div

(** val block_partitioning : n -> n -> n -> ((n * n) * n) * n **)

let block_partitioning b l e =
  if N.eqb b N0
  then (((N0, N0), N0), N0)
  else if N.eqb e N0
       then (((N0, N0), N0), N0)
       else let t = div_ceil l e in
            let n0 = div_ceil t b in
            if N.eqb n0 N0
            then (((N0, N0), N0), N0)
            else ((((div_ceil t n0), (div_floor t n0)),
                   (N.sub t (N.mul (div_floor t n0) n0))), n0)

(** val csub : n -> n -> n option **)

let csub a b =
  if N.leb b a then Some (N.sub a b) else None

(** val block_length : n -> n -> n -> n -> n -> n -> n option **)

let block_length al as_ nal l e sbn =
  let large = N.mul al e in
  let small = N.mul as_ e in
  if N.ltb (N.add sbn (Npos XH)) nal
  then Some large
  else if N.eqb (N.add sbn (Npos XH)) nal
       then if N.leb (N.mul nal large) l
            then Some large
            else csub l (N.mul (N.sub nal (Npos XH)) large)
       else (match csub l (N.mul nal large) with
             | Some l' ->
               let s = N.sub sbn nal in
               if N.leb (N.mul (N.add s (Npos XH)) small) l'
               then Some small
               else csub l' (N.mul s small)
             | None -> None)

(** val u64 : n **)

let u64 =
  Npos (XO (XO (XO (XO (XO (XO (XO (XO (XO (XO (XO (XO (XO (XO (XO (XO (XO
    (XO (XO (XO (XO (XO (XO (XO (XO (XO (XO (XO (XO (XO (XO (XO (XO (XO (XO
    (XO (XO (XO (XO (XO (XO (XO (XO (XO (XO (XO (XO (XO (XO (XO (XO (XO (XO
    (XO (XO (XO (XO (XO (XO (XO (XO (XO (XO (XO
    XH))))))))))))))))))))))))))))))))))))))))))))))))))))))))))))))))

(** val cadd64 : n -> n -> n option **)

let cadd64 a b =
  if N.ltb (N.add a b) u64 then Some (N.add a b) else None

(** val cmul64 : n -> n -> n option **)

let cmul64 a b =
  if N.ltb (N.mul a b) u64 then Some (N.mul a b) else None

(** val obind : 'a1 option -> ('a1 -> 'a2 option) -> 'a2 option **)

let obind o f =
  match o with
  | Some x -> f x
  | None -> None

(** val div_ceil64 : n -> n -> n option **)

let div_ceil64 a b =
  if N.eqb (N.modulo a b) N0
  then Some (N.div a b)
  else cadd64 (N.div a b) (Npos XH)

(** val block_partitioning64 : n -> n -> n -> (((n * n) * n) * n) option **)

let block_partitioning64 b l e =
  if N.eqb b N0
  then Some (((N0, N0), N0), N0)
  else if N.eqb e N0
       then Some (((N0, N0), N0), N0)
       else obind (div_ceil64 l e) (fun t ->
              obind (div_ceil64 t b) (fun n0 ->
                if N.eqb n0 N0
                then Some (((N0, N0), N0), N0)
                else obind (div_ceil64 t n0) (fun al ->
                       let as_ = N.div t n0 in
                       obind (cmul64 as_ n0) (fun p ->
                         obind (csub t p) (fun nal -> Some (((al, as_), nal),
                           n0))))))

(** val block_length64 : n -> n -> n -> n -> n -> n -> n option **)

let block_length64 al as_ nal l e sbn =
  obind (cmul64 al e) (fun large ->
    obind (cmul64 as_ e) (fun small ->
      obind (cadd64 sbn (Npos XH)) (fun s1 ->
        if N.ltb s1 nal
        then Some large
        else if N.eqb s1 nal
             then obind (cmul64 nal large) (fun ls ->
                    if N.leb ls l
                    then Some large
                    else obind (csub nal (Npos XH)) (fun n1 ->
                           obind (cmul64 n1 large) (fun p -> csub l p)))
             else obind (cmul64 nal large) (fun p ->
                    obind (csub l p) (fun l' ->
                      obind (csub sbn nal) (fun s ->
                        obind (cadd64 s (Npos XH)) (fun s1' ->
                          obind (cmul64 s1' small) (fun ss ->
                            if N.leb ss l'
                            then Some small
                            else obind (cmul64 s small) (fun q -> csub l' q)))))))))

(** val reconstructed_b : n -> n -> n -> n **)

let reconstructed_b z l e =
  div_ceil (div_ceil l z) e

(** val sender_slices : nat -> n -> n -> n -> n -> n -> n -> n -> n list **)

let rec sender_slices fuel al as_ nal e len sbn off =
  match fuel with
  | O -> []
  | S f ->
    let bl = if N.ltb sbn nal then al else as_ in
    let e0 = N.add off (N.mul bl e) in
    let e1 = if N.ltb len e0 then len else e0 in
    (N.sub e1 off) :: (if N.eqb e1 len
                       then []
                       else sender_slices f al as_ nal e len
                              (N.add sbn (Npos XH)) e1)

(** val receiver_lengths :
    nat -> n -> n -> n -> n -> n -> n -> n option list **)

let rec receiver_lengths n0 al as_ nal l e sbn =
  match n0 with
  | O -> []
  | S n' ->
    (block_length al as_ nal l e sbn) :: (receiver_lengths n' al as_ nal l e
                                           (N.add sbn (Npos XH)))
