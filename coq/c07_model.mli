
type nat =
| O
| S of nat

val fst : ('a1 * 'a2) -> 'a1

val snd : ('a1 * 'a2) -> 'a2

type comparison =
| Eq
| Lt
| Gt

type positive =
| XI of positive
| XO of positive
| XH

type n =
| N0
| Npos of positive

module Pos :
 sig
  type mask =
  | IsNul
  | IsPos of positive
  | IsNeg
 end

module Coq_Pos :
 sig
  val succ : positive -> positive

  val add : positive -> positive -> positive

  val add_carry : positive -> positive -> positive

  val pred_double : positive -> positive

  type mask = Pos.mask =
  | IsNul
  | IsPos of positive
  | IsNeg

  val succ_double_mask : mask -> mask

  val double_mask : mask -> mask

  val double_pred_mask : positive -> mask

  val sub_mask : positive -> positive -> mask

  val sub_mask_carry : positive -> positive -> mask

  val mul : positive -> positive -> positive

  val compare_cont : comparison -> positive -> positive -> comparison

  val compare : positive -> positive -> comparison

  val eqb : positive -> positive -> bool
 end

module N :
 sig
  val succ_double : n -> n

  val double : n -> n

  val add : n -> n -> n

  val sub : n -> n -> n

  val mul : n -> n -> n

  val compare : n -> n -> comparison

  val eqb : n -> n -> bool

  val leb : n -> n -> bool

  val ltb : n -> n -> bool

  val pos_div_eucl : positive -> n -> n * n

  val div_eucl : n -> n -> n * n

  val div : n -> n -> n

  val modulo : n -> n -> n
 end

val div_ceil : n -> n -> n

val div_floor : n -> n -> n

val block_partitioning : n -> n -> n -> ((n * n) * n) * n

val csub : n -> n -> n option

val block_length : n -> n -> n -> n -> n -> n -> n option

val u64 : n

val cadd64 : n -> n -> n option

val cmul64 : n -> n -> n option

val obind : 'a1 option -> ('a1 -> 'a2 option) -> 'a2 option

val div_ceil64 : n -> n -> n option

val block_partitioning64 : n -> n -> n -> (((n * n) * n) * n) option

val block_length64 : n -> n -> n -> n -> n -> n -> n option

val reconstructed_b : n -> n -> n -> n

val sender_slices : nat -> n -> n -> n -> n -> n -> n -> n -> n list

val receiver_lengths : nat -> n -> n -> n -> n -> n -> n -> n option list
